#!/bin/bash
# usage: tools/tryseed.sh <patch> <prop> [<prop>...]   - applies a patch to /repo, runs checks, restores /repo
patch="$1"; shift
cd /repo || exit 1
if ! git apply --check "$patch" 2>/dev/null; then
  if ! git apply --3way "$patch" >/dev/null 2>&1; then echo "PATCH DOES NOT APPLY: $patch"; git reset -q; git checkout -- .; exit 2; fi
  git reset -q
else
  git apply "$patch"
fi
for p in "$@"; do
  (cd /verif && ./check "$p" --tier quick 2>&1 | grep -v "^  " | tail -${TAILN:-3} | cut -c1-${CUTN:-250})
done
git reset -q; git checkout -- .
[ -z "$(git status --short)" ] || echo "WARNING: /repo not clean"
