#!/bin/bash
# like runall.sh, four checks at a time (each check already uses a process pool)
cd /verif
python3 -c "import json;print('\n'.join(c['property_id'] for c in json.load(open('MANIFEST.json'))['checks']))" | \
  xargs -P 4 -I{} bash -c 'out=$(./check {} --tier '"${1:-quick}"' 2>&1); rc=$?; echo "{} rc=$rc $(echo "$out" | tail -1)"'
