#!/bin/bash
# runs every claimed quick check on the current /repo tree and prints one line each
cd /verif
for p in $(python3 -c "import json;print(' '.join(c['property_id'] for c in json.load(open('MANIFEST.json'))['checks']))"); do
  out=$(./check $p --tier ${1:-quick} 2>&1); rc=$?
  echo "$p rc=$rc $(echo "$out" | tail -1)"
done
