#!/bin/bash
# usage: tools/seedcheck.sh <seed dir with patch.diff [demo.py]> <prop> [<prop>...]
# validates a seeded change on a scratch worktree of /repo HEAD (outside /repo and /verif): applies, suite passes,
# demo fails; then runs the named checks against that worktree.  Prints one summary line.  Removes the worktree.
d="$1"; shift
wt=$(mktemp -d /tmp/seedchk.XXXXXX); rmdir "$wt"
git -C /repo worktree add -q --detach "$wt" HEAD || exit 3
cleanup() { git -C /repo worktree remove --force "$wt" 2>/dev/null; rm -rf "$wt"; }
trap cleanup EXIT
cd "$wt" || exit 3
if ! git apply "$d/patch.diff" 2>/dev/null; then echo "SEED $d: DOES-NOT-APPLY"; exit 2; fi
t=$(/venv/bin/python -m pytest -q -p no:cacheprovider --timeout=900 -x 2>&1 | tail -1)
case "$t" in *passed*) tests=pass;; *) tests="FAIL($t)";; esac
demo=none
if [ -f "$d/demo.py" ]; then /venv/bin/python "$d/demo.py" >/dev/null 2>&1; demo="exit$?"; fi
res=""
for p in "$@"; do
  out=$(cd /verif && PYVC_REPO="$wt" PYVC_OUT="$wt/.pyvc_out" ./check "$p" --tier quick 2>&1); rc=$?
  nv=$(echo "$out" | grep -c "^VIOLATION")
  nf=$(echo "$out" | grep "^VIOLATION" | grep -vc "no-failing-input-found")
  res="$res $p:rc=$rc,violations=$nv,with-input=$nf"
done
echo "SEED $d: tests=$tests demo=$demo$res"
