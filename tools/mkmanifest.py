#!/usr/bin/env python3
"""Regenerates MANIFEST.json from the table below (keep in sync with DESIGN.md)."""
import json
import os

HERE = os.path.dirname(os.path.dirname(os.path.abspath(__file__)))
TRUST = ("Trusted: the VC generator pyvc written for this task (no deductive verifier for Python is installed), z3, "
         "the CPython semantics assumptions S1-S6 of DESIGN §2.2, the slot-type table contracts/invariants.py "
         "(assumed for pre-state objects), the reference tables under contracts/spec. ")

CLAIMS = {
    "C01": dict(
        technique="contract-based deductive verification: frame/ownership obligations (O-FRAME) generated from the "
                  "real AST by a symbolic executor, discharged by z3; lemma L-FRAME in Lean",
        level="proof",
        text="Every @builder method of every concrete class is executed symbolically through the real utils.builder "
             "wrapper on an arbitrary pre-state receiver (unbounded containers, arbitrary arguments); each heap write "
             "must target an object allocated in the call (frame/write), the result must be a new object "
             "(frame/result); the only exception is the alias of an un-aliased argument (frame/arg-alias); every other "
             "public method of those classes that is not a render/observer method writes to nothing that existed "
             "before the call (frame/public). "
             "All receivers/arguments/histories are covered by induction (L-FRAME); no bound.",
        note=TRUST + "do_join is an in-place mutator by contract (Joiner calls it on the copy made by join()).",
        design="§4.1, §5 C01"),
    "C02": dict(
        technique="contract-based deductive verification: purity (O-PURE) and determinism (O-DET) obligations per "
                  "render/observer method from the real AST, z3",
        level="proof",
        text="Every get_sql/*_sql/__str__/__hash__/__eq__/fields_/tables_/nodes_ ... method of every concrete class "
             "writes only to objects it allocates, plus appends to the caller's parameterizer (pure/write); no "
             "hash-ordered set is iterated in an order-sensitive position (pure/det); no builder/constructor stores "
             "a one-shot iterator (state/iterable) or the iteration order of a hash-ordered set (state/order); each contract "
             "is reachable (pure/reachable).",
        note=TRUST + "Thread-interleaving and cross-process claims follow from purity + determinism by a paper "
                     "argument (DESIGN §4.1).",
        design="§4.1, §5 C02"),
    "C08": dict(
        technique="contract-based deductive verification: context-propagation obligations (O-CTX) at every nested "
                  "render call site, SqlContext.copy functional contract, z3",
        level="proof",
        text="For every render function and concrete class, each nested render receives the dialect part of the "
             "context (quote chars, dialect, as_keyword, parameterizer, alias policies) unchanged - or the query "
             "class default for an outermost call (ctx/dialect); SqlContext.copy equals self except at the given "
             "keys (ctx/copy, 13 cases); dialects that forbid GROUP BY alias force the flag whatever context they get "
             "(ctx/convention); no package object is formatted through str() inside a render (ctx/str-bypass); no get_sql "
             "writes to the object it renders (ctx/stateless = the C02 purity obligations); string / JSON literals are "
             "escaped by the dialect of the context (ctx/escape = the C05 obligations under the MySQL dialect); JSON text "
             "does not depend on the identifier quote (ctx/json-quote); set operands are bracketed by the base "
             "statement's convention (ctx/setop-wrap).",
        note=TRUST + "Wrapper choice per position (MySQL backslash rule) is decided under C05. Set-operand wrapping "
                     "is a builder attribute, not a context component, and is not covered.",
        design="§4.4, §5 C08"),
    "C10": dict(
        technique="contract-based deductive verification: non-interference obligations on the position flags passed "
                  "to nested renders (dependency on incoming position atoms), position table, z3",
        level="other",
        text="In every statement builder (all dialect classes, set operations) no position flag passed to any nested "
             "render depends on the embedding position of the statement (nonint/flags, incl. the namespace decision for set operations); embedding sites pass "
             "the flags the position table prescribes (embed/site); substituting each position flag in the symbolic "
             "text of every statement builder changes it only by the enclosing brackets / the alias suffix "
             "(nonint/text); every nested render of a statement builder receives the dialect conventions of the "
             "incoming context (dialect, quote characters, as_keyword, ...) unchanged, so an embedded sub-query sees "
             "what it sees stand-alone (embed/convention = the ctx/dialect obligations of C08 for statement builders).",
        note=TRUST + "Position table contracts/spec/positions.py transcribes the property. Placeholder renumbering "
                     "is C04. Known finding: PostgreSQL RETURNING after the sub-query brackets.",
        design="§4.4, §5 C10"),
    "C11": dict(
        technique="contract-based deductive verification: qualification rule NS(self) written as a specification "
                  "function evaluated by the same symbolic engine; z3 equivalence per nested render site",
        level="other",
        text="Every clause of every statement builder is rendered with with_namespace == NS(self) (bare positions: "
             "False) (ns/decision); Field/Star print the qualifier iff table and (with_namespace or table.alias) and "
             "the qualifier is the quoted alias-else-name (ns/field, ns/star, ns/table-name); where()/prewhere() never "
             "clear the foreign-table flag (ns/foreign-flag); _validate_table examines every field of the term "
             "(ns/validate); names given to orderby()/groupby() become fields of the first FROM source (ns/str-column). Refuted obligations are listed as known findings.",
        note=TRUST + "Known findings: PostgreSQL RETURNING qualification (pinned by tests), MySQL UPDATE tail clauses.",
        design="§5 C11"),
    "C12": dict(
        technique="contract-based deductive verification: alias obligations per term class (suffix analysis of the "
                  "result shape under z3 path conditions) and per nested render site (position table)",
        level="other",
        text="Every operand site inside expression nodes and every clause site passes with_alias as the position "
             "table prescribes (alias/site); each Term class prints its alias as a suffix exactly when with_alias "
             "(alias/class-on, alias/class-off); GROUP BY / ORDER BY print an alias reference only under "
             "membership in the aliases of the select list computed at render time (alias/ref). Refuted class obligations (classes that always/never print the "
             "alias, pinned by existing tests) are known findings.",
        note=TRUST + "Known findings: classes that always / never print their alias (pinned by tests).",
        design="§5 C12"),
    "C04": dict(
        technique="contract-based deductive verification: evaluation-order vs text-order obligations (O-LINEAR) on "
                  "the effect sequence and result shape of every render function; leaf contracts; z3",
        level="other",
        text="In every render function each nested render that is evaluated contributes its text exactly once "
             "(linear/once) and nested renders are evaluated in text order (linear/order); ValueWrapper/Array append "
             "exactly their value when a parameterizer is installed (param/leaf); only the leaf methods read the "
             "parameterizer (linear/guard-independence); Parameterizer.create_param appends exactly the value on every "
             "returning path and returns a new Parameter (param/create); should_parameterize is False exactly for enum members and '*' (param/should); the placeholder table matches the dialect table "
             "(param/table); no builder wraps a query-builder object in a constant wrapper (param/plain-data). "
             "L-LINEAR (paper) lifts this to whole statements.",
        note=TRUST + "Known findings: Column default of a non-Term node, Array.original_value may hold terms. "
                     "Execution on SQLite is not covered.",
        design="§4.5, §5 C04"),
    "C09": dict(
        technique="contract-based deductive verification: exhaustive state enumeration (limit/offset/order-by set or "
                  "not) of the symbolic pagination text against the dialect's row-limiting grammar; z3",
        level="other",
        text="For each of the six builder classes and each of the 8 presence states the text of the real "
             "_apply_pagination, collapsed under the state's assumptions, equals the dialect's row-limiting clause "
             "with the values in the right slots (page/grammar, exhaustive); set operations likewise per base "
             "dialect; setters store into the right attribute (page/setter); limit/offset are evaluated in text "
             "order (page/param-order).",
        note=TRUST + "Known findings: OFFSET without LIMIT for SQLite/MySQL/generic, set operations over SQL Server / "
                     "Oracle operands emit LIMIT/OFFSET. Row semantics on an engine are not covered.",
        design="§5 C09"),
    "C13": dict(
        technique="contract-based deductive verification: compositional bracket-balance and clause-order analysis of "
                  "the symbolic result shape of every render function / statement builder; completeness spec "
                  "evaluated by the same engine; z3",
        level="other",
        text="Every render function's text is bracket-balanced (wf/balanced); in every statement builder the clause "
             "keywords at depth 0 occur at most once and in the dialect's order for every feasible combination of "
             "optional clauses (wf/order, pairwise feasibility by z3); an incomplete builder renders '' (wf/empty); "
             "builder methods addressing different clauses satisfy Bernstein's conditions on the read/write sets of "
             "their real bodies (commute/reads, commute/writes), and each method writes only slots of the clause it is about "
             "(commute/own-clause) - where the conditions fail, mutual rejection (each method raises on every path under "
             "the other's post-condition: both orders are rejected) is proved by symbolic execution of the real bodies "
             "with z3; otherwise a witness search on the real code (both call orders, then the same completion of the "
             "statement) decides between a violation with input and a bounded stand-in (none on the current tree).",
        note=TRUST + "Bounded stand-ins (commutation cases where Bernstein's conditions fail and no order dependence "
                     "was found) would be labelled bounded and not counted as proved (none on the current tree); 19 genuine order dependences are "
                     "known findings. Acceptance by SQLite's parser is not covered.",
        design="§5 C13"),
    "C16": dict(
        technique="contract-based deductive verification: render-slots derived from the real get_sql compared with "
                  "the slots rebuilt by the real replace_table, path-sensitively (z3); frame obligations of C01",
        level="proof",
        text="For every class, on every returning path of replace_table each rendered child slot is rebuilt by a "
             "nested replace_table call or by assignment of the new table, and the rebuilt value is stored in that "
             "slot of the returned object, for every kind of element that is rendered (slots/replace); a result built by "
             "the constructor keeps the receiver's other attributes (slots/preserve); every receiver of a nested "
             "call has the method (slots/callee); the receiver is untouched and the result is new (slots/frame); every "
             "concrete row-source class resolves __eq__ to a bool-valued function, because replace_table decides with "
             "`source == current_table` (slots/eq-bool); slots that reach the text through an intermediate object "
             "(Criterion.all(self._filters)) count as rendered.",
        note=TRUST + "The homomorphism lemma (slot-wise replacement = construction with the new table) is a paper "
                     "argument.",
        design="§4.6, §5 C16"),
    "C17": dict(
        technique="contract-based deductive verification: symbolic execution of __eq__/__ne__/__hash__ (z3 "
                  "equivalences, read-set inclusion), structural contracts of the collectors, slot coverage of nodes_",
        level="proof",
        text="x == x; == is a conjunction of same-attribute equalities (equivalence) and symmetric (eq/sym); != is its negation; the "
             "attributes a hash reads are among those equality compares (eq/hash); tables_/fields_()/find_ are the "
             "full node collections (collect/complete); nodes_() traverses every rendered slot on every path (collect/nodes); the "
             "Field hash key determines (table, name) (collect/dedup - known finding).",
        note=TRUST + "Known finding: Field de-duplication through the rendered text.",
        design="§5 C17"),
    "C18": dict(
        technique="contract-based deductive verification: scenario execution __init__ ; get_sql over symbolic integer "
                  "components (z3 integers), regex-membership VCs over symbolic numerals for the trim (z3 regex)",
        level="proof",
        text="All 2^7 zero/non-zero patterns, quarters and weeks, all dialect templates: component bookkeeping "
             "(iv/init), field order and separators passed to the trim (iv/format), sign (iv/sign), unit designator "
             "(iv/unit), dialect template (iv/template), and - with the trim regex read from the source - the trim "
             "removes exactly the leading/trailing zero fields (iv/trim, 1000+ z3 regex VCs over unbounded numerals).",
        note=TRUST + "Axiom R1 (leftmost / first-alternative / greedy semantics of re.sub) is assumed and "
                     "cross-checked against CPython on a bounded sample.",
        design="§5 C18"),
    "C05": dict(
        technique="contract-based deductive verification: functional contracts of the literal renderers (symbolic "
                  "execution of the real get_value_sql/_get_str_sql/format_quotes per value kind, wrapper and dialect, "
                  "z3), inverse lemmas L-ESC-SQL / L-ESC-MYSQL machine-checked in Lean 4",
        level="other",
        text="For every wrapper class x value kind x {MySQL, other} the text computed by the real code is the "
             "escaping function esc_D of the dialect's literal grammar applied to the value, inside quotes "
             "(lit/computes); esc_D is injective with the grammar's decoder as left inverse (lit/lemma, Lean); the "
             "escaping is chosen by ctx.dialect at render time, not by the wrapper class of the position "
             "(lit/position); JSON terms are escaped like strings (lit/json-term - known finding).",
        note=TRUST + "Lean 4 kernel trusted for the lemmas. A bounded CPython cross-check of the axioms on str.replace "
                     "is recorded as an assumption cross-check, not as an obligation. Round trip on an engine is "
                     "not covered.",
        design="§4.2, §5 C05"),
    "C07": dict(
        technique="contract-based deductive verification: taint-style obligations on the symbolic result shape of "
                  "every render function (name-labelled data occur only inside a quote atom with the context's "
                  "quote character), functional contract of format_quotes, z3",
        level="other",
        text="In every render function of every class each name-typed datum reaches the text only through "
             "format_quotes with the quote character of the context (alias: the alias quote character) "
             "(quote/site); a Field/Table/Index/Column/Schema prints its quoted name on every path (quote/emit); a column/star qualifier is the quoted alias-else-name "
             "of its source (quote/qualifier); no package object is formatted through str() inside a render (quote/str-bypass); "
             "constructors store name arguments unmodified (name/store); format_quotes wraps and doubles (quote/func - "
             "known finding: no doubling); no SQL "
             "template is computed from data (quote/template); the dialect contexts carry the dialect's quote "
             "characters (quote/ctx-consts).",
        note=TRUST + "Known findings: format_quotes does not double an embedded quote character; CTE names and "
                     "AliasedQuery names are emitted raw.",
        design="§4.2, §5 C07"),
    "C14": dict(
        technique="contract-based deductive verification: exceptional postconditions (raise <=> specification "
                  "condition over the pre-state) per guarded function, specification functions evaluated by the "
                  "same symbolic engine, z3 implications in both directions per path",
        level="proof",
        text="For each of the 28 guards listed in contracts/spec/raises.py and every concrete class: a path ends in "
             "the exception iff the specified condition holds (raise/iff), no other package exception escapes "
             "(raise/unlisted); JoinOn.validate's guard is the emptiness of tables(criterion.fields_()) minus "
             "(sources u joined items u item) (join/validate) and do_join calls it with FROM + UPDATE table + CTEs "
             "(join/reach); sources compared by the set difference hash coherently (join/hash-coherence = C17 eq/hash); "
             "PostgreSQL rejects a RETURNING term per field whose table is neither target nor source "
             "(returning/foreign); the set-operation arity guard compares the select-list lengths (setop/arity).",
        note=TRUST + "join/validate and returning/foreign are structural contracts on the symbolic guard of the real "
                     "function (which sets are subtracted, which memberships are tested), not semantic equivalences.",
        design="§5 C14"),
    "C15": dict(
        technique="contract-based deductive verification: exceptional postcondition of every __getattr__ for the "
                  "special-method probes (measured on the running interpreters), functional contract of every "
                  "__copy__, the frame obligations of C01 for decoupling; CPython copy/pickle protocol axiomatised",
        level="proof",
        text="Every __getattr__ of the package, executed through the real ignore_copy wrapper, raises AttributeError "
             "for every probe name copy/deepcopy/pickle (all protocols) send (getattr/probe, getattr/decorated); no "
             "class customises the protocol (proto/plain); each __copy__ returns a new object of the same class with "
             "the receiver's attributes and fresh copies of its containers (copy/contract); builder calls on a "
             "duplicate write only to objects they allocate (decouple = C01 frame obligations).",
        note=TRUST + "Axiom T7: CPython rebuilds plain instances through cls.__new__ + __dict__ when the probes "
                     "raise AttributeError. Same rendering of a duplicate follows from C02 (render is a function of "
                     "the reachable structure). User values stored in the tree must themselves be copyable.",
        design="§5 C15"),
    "C06": dict(
        technique="contract-based deductive verification: depth-0 operator skeleton of every Term render function "
                  "(from the symbolic result shape), exposure contracts per class, exhaustive finite check of the "
                  "parenthesisation functions against a reference precedence table, z3",
        level="other",
        text="Per class the operators its text shows at bracket depth 0 are among its declared exposure "
             "(prec/exposure); per parent class x operand slot x adjacent operator x level a child may expose, the "
             "operand is bracketed wherever the reference grammar would regroup (prec/embed); for "
             "ArithmeticExpression all 4x4x2 (parent, child, side) cases of the real bracket condition (prec/arith, "
             "exhaustive); AND/OR/XOR groups and NOT pass/obey the subcriterion flag (prec/bool); a '-' is never "
             "directly followed by an operand whose text starts with '-' (prec/fuse). Refuted obligations (operands "
             "of comparisons, BETWEEN, IN, IS NULL, criteria inside arithmetic, a*(b/c)) are known findings.",
        note=TRUST + "Reference precedence table contracts/spec/precedence.py is a trusted spec; L-PREC is a paper "
                     "lemma. Fusion of tokens other than '-' '-' is not analysed. Raw SQL supplied by the user "
                     "(LiteralValue, custom functions) is outside the closed world.",
        design="§5 C06"),
}

PENDING = "machinery for this property not completed yet (build in progress, see DESIGN.md §10)"
NA = {"C03": "the deciding oracle is a running SQLite engine (acceptance and result-set equality on all databases); "
             "no contract on a function of this package can express it - see DESIGN.md §5 C03. Its textual "
             "sub-claims are decided under C05, C06, C07, C11, C13."}


def main():
    ids = [json.loads(l)["id"] for l in open(os.path.join(HERE, "properties.jsonl"))]
    checks = []
    for pid, c in CLAIMS.items():
        checks.append({
            "property_id": pid,
            "quick_cmd": f"./check {pid} --tier quick",
            "thorough_cmd": f"./check {pid} --tier thorough",
            "evidence_file": f"/verif/evidence/{pid}.json",
            "replay_cmd_template": f"./check {pid} --replay {{path}}",
            "engine": "pyvc",
            "level_claimed": {"category": c["level"], "text": c["text"], "design_ref": c["design"]},
            "level_note": c["note"],
            "technique": c["technique"],
        })
    na = []
    for i in ids:
        if i in CLAIMS:
            continue
        na.append({"property_id": i, "reason": NA.get(i, PENDING)})
    m = {
        "version": 1,
        "setup_cmd": "./check --setup",
        "hooks": {"guard": "PYPIKA_TORTOISE_VERIF",
                  "enable": "none needed: contracts live in a sidecar under /verif, /repo is read with ast on every "
                            "run; the guard name is reserved and unused",
                  "baseline_off_cmd": "cd /repo && /venv/bin/python -m pytest -ra -q -p no:cacheprovider "
                                      "--timeout=900 --continue-on-collection-errors",
                  "source_commits": [], "add_only": True},
        "engines": [{"name": "pyvc", "path": "/verif/pyvc", "serves_properties": sorted(CLAIMS),
                     "kind_free_text": "verification-condition generator for Python written for this task: symbolic "
                                       "executor over the real AST of /repo, sidecar contracts, z3 back end, Lean for "
                                       "meta-lemmas"}],
        "checks": checks,
        "notes": "see DESIGN.md; known findings in known_findings.json; seeded breaks in seeded/",
        "not_applicable": na,
    }
    json.dump(m, open(os.path.join(HERE, "MANIFEST.json"), "w"), indent=1)


if __name__ == "__main__":
    main()
