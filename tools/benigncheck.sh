#!/bin/bash
# usage: tools/benigncheck.sh <dir with patch.diff> [<prop>...]  (default: every claimed property) - applies a behaviour-preserving change to a scratch worktree and
# runs EVERY claimed quick check there; prints one line per check that does not exit 0, and a summary line
d="$1"; shift
props="$*"
wt=$(mktemp -d /tmp/benignchk.XXXXXX); rmdir "$wt"
git -C /repo worktree add -q --detach "$wt" HEAD || exit 3
cleanup() { git -C /repo worktree remove --force "$wt" 2>/dev/null; rm -rf "$wt"; }
trap cleanup EXIT
cd "$wt" || exit 3
git apply "$d/patch.diff" || { echo "BENIGN $d: DOES-NOT-APPLY"; exit 2; }
bad=""
for p in ${props:-$(python3 -c "import json;print(' '.join(c['property_id'] for c in json.load(open('/verif/MANIFEST.json'))['checks']))")}; do
  out=$(cd /verif && PYVC_REPO="$wt" PYVC_OUT="$wt/.pyvc_out" ./check "$p" --tier quick 2>&1); rc=$?
  if [ $rc -ne 0 ]; then bad="$bad $p(rc=$rc)"; echo "BENIGN $d $p rc=$rc :: $(echo "$out" | grep "^VIOLATION\|^UNDECIDED\|^CHECKER" | head -3 | cut -c1-260 | tr '\n' ';')"; fi
done
echo "BENIGN $d: ${bad:-all checks exit 0}"
