"""Position table (DESIGN Appendix B.2): which position flags a render site must pass to the child it renders.
Transcribed from the statements of C10, C11, C12.  None = unspecified (the property is silent: no obligation).

Keys: (function name, receiver pattern).  Receiver patterns are canonical slot paths; '*' matches anything."""

ON, OFF = True, False

# sites inside the statement builders:  (function, receiver glob) -> {flag: required value}
BUILDER_SITES = [
    ("_select_sql", "self._selects[*]", {"with_alias": ON, "subquery": ON}),
    ("_from_sql", "*", {"with_alias": ON, "subquery": ON}),
    ("_where_sql", "*", {"with_alias": OFF, "subquery": ON, "subcriterion": OFF}),
    ("_prewhere_sql", "*", {"with_alias": OFF, "subquery": ON, "subcriterion": OFF}),
    ("_having_sql", "*", {"with_alias": OFF, "subquery": ON, "subcriterion": OFF}),
    ("_group_sql", "*", {"with_alias": OFF, "subcriterion": OFF}),
    ("_orderby_sql", "*", {"with_alias": OFF, "subcriterion": OFF}),
    ("_columns_sql", "*", {"with_alias": OFF, "with_namespace": OFF}),
    ("_returning_sql", "*", {"with_alias": ON}),
    ("_distinct_sql", "self._distinct_on[*]", {"with_alias": ON}),
    ("_limit_sql", "*", {"with_alias": OFF}),
    ("_offset_sql", "*", {"with_alias": OFF}),
]
# Join classes
JOIN_SITES = [
    ("queries.Join.get_sql", "self.item", {"with_alias": ON, "subquery": ON}),
    ("queries.JoinOn.get_sql", "self.criterion", {"with_alias": OFF, "subquery": ON, "subcriterion": OFF}),
    ("queries.JoinUsing.get_sql", "self.fields[*]", {"with_alias": OFF}),
]
# CTE bodies, INSERT..SELECT source, CREATE..AS source, set-operation operands: no alias
BODY_SITES = [
    ("_with_sql", "self._with[*]", {"with_alias": OFF, "subquery": OFF}),
    ("_as_select_sql", "*", {"with_alias": OFF}),
]
# positions the property does not specify (no obligation): VALUES rows, ON CONFLICT targets/updates, SET values,
# CTE column lists, INSERT/UPDATE/INTO target tables
UNSPECIFIED_FUNCS = {"_values_sql", "_on_conflict_sql", "_on_conflict_action_sql", "_set_sql", "_insert_sql",
                     "_replace_sql", "_update_sql", "_into_sql", "_create_table_sql", "_drop_table_sql",
                     "_into_table_sql", "_force_index_sql", "_use_index_sql", "_for_update_sql"}
