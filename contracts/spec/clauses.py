"""C13 - which clause of the statement each state slot of a query builder belongs to.  Two builder calls "address
different clauses" when the clauses of the slots they write are disjoint; flags that belong to no clause are listed
as auxiliary.  Written from the property statement (clauses of the rendered statement) and the slot names."""

CLAUSE = {
    "_selects": "select", "_select_star": "select", "_select_star_tables": "select", "_distinct": "select",
    "_distinct_on": "select", "_top": "select", "_top_percent": "select", "_top_with_ties": "select",
    "_modifiers": "select",
    "_from": "from", "_joins": "join", "_use_indexes": "use-index", "_force_indexes": "force-index",
    "_prewheres": "prewhere", "_wheres": "where", "_groupbys": "group-by", "_with_totals": "group-by",
    "_mysql_rollup": "group-by", "_havings": "having", "_orderbys": "order-by",
    "_limit": "limit", "_offset": "offset", "_limit_by": "limit",
    "_for_update": "for-update", "_for_update_nowait": "for-update", "_for_update_skip_locked": "for-update",
    "_for_update_of": "for-update",
    "_insert_table": "insert", "_select_into": "insert", "_columns": "insert", "_values": "insert",
    "_replace": "insert", "_ignore": "insert",
    "_update_table": "update-target", "_updates": "set", "_delete_from": "delete",
    "_with": "with", "_unions": "set-operation",
    "_on_conflict": "on-conflict", "_on_conflict_fields": "on-conflict", "_on_conflict_do_nothing": "on-conflict",
    "_on_conflict_do_updates": "on-conflict", "_on_conflict_wheres": "on-conflict",
    "_on_conflict_do_update_wheres": "on-conflict",
    "_returns": "returning", "_return_star": "returning",
    "alias": "alias",
}
# bookkeeping that belongs to no clause
AUXILIARY = {"_foreign_table", "_subquery_count", "_wrapper_cls", "immutable"}
# methods that are not calls "addressing a clause" of the statement under construction
NOT_CLAUSE_CALLS = {"replace_table", "as_", "union", "union_all", "intersect", "minus", "except_of", "slice"}

# the clause(s) each builder method is about (from its name / documentation; `where` routes into ON CONFLICT .. WHERE
# after on_conflict()).  A method that writes a slot of another clause has a side effect on that clause.
METHOD_CLAUSE = {
    "columns": {"insert"}, "delete": {"delete"}, "distinct": {"select"}, "distinct_on": {"select"},
    "do_nothing": {"on-conflict"}, "do_update": {"on-conflict"}, "fetch_next": {"limit"},
    "for_update": {"for-update"}, "force_index": {"force-index"}, "from_": {"from"}, "groupby": {"group-by"},
    "having": {"having"}, "insert": {"insert"}, "into": {"insert"}, "join": {"join"}, "limit": {"limit"},
    "modifier": {"select"}, "offset": {"offset"}, "on_conflict": {"on-conflict"}, "orderby": {"order-by"},
    "prewhere": {"prewhere"}, "replace": {"insert"}, "returning": {"returning"}, "rollup": {"group-by"},
    "select": {"select"}, "set": {"set"}, "top": {"select"}, "update": {"update-target"}, "use_index": {"use-index"},
    "where": {"where", "on-conflict"}, "with_": {"with"}, "with_totals": {"group-by"},
}
