"""C04 - which values are parameterised (from the property statement: enum members and the lone '*' stay inline;
an enum member stays inline whatever else it is an instance of, e.g. a str-mixin enum)."""


def should_parameterize(self, value):
    if isinstance(value, Enum):
        return False
    return not (isinstance(value, str) and value == "*")
