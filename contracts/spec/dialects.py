"""Reference table of dialect conventions (transcribed from the property statements C08/C09/C12)."""

# builder classes of dialects that forbid referring to a select alias in GROUP BY: whatever context they are
# rendered under, every nested render must see groupby_alias == False
NO_GROUPBY_ALIAS = {"dialects.mssql.MSSQLQueryBuilder", "dialects.oracle.OracleQueryBuilder"}

# placeholder style per dialect (Dialects member name -> style); '$n' means numbered from 1
PLACEHOLDER = {"ORACLE": "?", "MSSQL": "?", "MYSQL": "%s", "POSTGRESQL": "$n", "SQLITE": "?"}
DEFAULT_PLACEHOLDER = "?"

# identifier quote characters of the six query classes
QUOTE_CHAR = {"queries.Query": '"', "dialects.mysql.MySQLQuery": "`", "dialects.postgresql.PostgreSQLQuery": '"',
              "dialects.sqlite.SQLLiteQuery": '"', "dialects.mssql.MSSQLQuery": '"',
              "dialects.oracle.OracleQuery": '"'}
