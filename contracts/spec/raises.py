"""C14 - exceptional postconditions.  Each function `<Class>__<method>__<Exception>` has the signature of the
function under contract and returns the condition, over the PRE-state, under which that exception is raised.
Written from the property statement ("a second ON CONFLICT handler, WHERE after DO NOTHING, RETURNING on a
non-DML statement, CASE without WHEN, set operations over select lists of different lengths, repeated one-shot
calls"), shapes of slots from the code.  Evaluated by the same symbolic executor as the code (names resolve in
pypika_tortoise.queries / the module given in RAISES)."""

# (function short name, exception, spec function, module whose globals the spec sees[, message fragment that
# identifies the guard when the function can raise the same exception class for another reason])
RAISES = [
    ("terms.Case.get_sql", "CaseException", "Case__get_sql", "pypika_tortoise.terms"),
    ("queries.QueryBuilder.on_conflict", "QueryException", "QB__on_conflict", "pypika_tortoise.queries"),
    ("queries.QueryBuilder.do_update", "QueryException", "QB__do_update", "pypika_tortoise.queries"),
    ("queries.QueryBuilder.do_nothing", "QueryException", "QB__do_nothing", "pypika_tortoise.queries"),
    ("queries.QueryBuilder.where", "QueryException", "QB__where", "pypika_tortoise.queries"),
    ("queries.QueryBuilder._on_conflict_sql", "QueryException", "QB__on_conflict_sql", "pypika_tortoise.queries"),
    ("queries.QueryBuilder.into", "AttributeError", "QB__into", "pypika_tortoise.queries"),
    ("queries.QueryBuilder.update", "AttributeError", "QB__update", "pypika_tortoise.queries"),
    ("queries.QueryBuilder.delete", "AttributeError", "QB__delete", "pypika_tortoise.queries"),
    ("queries.QueryBuilder.columns", "AttributeError", "QB__needs_insert", "pypika_tortoise.queries"),
    ("queries.QueryBuilder.insert", "AttributeError", "QB__needs_insert", "pypika_tortoise.queries"),
    ("queries.QueryBuilder.replace", "AttributeError", "QB__needs_insert", "pypika_tortoise.queries"),
    ("queries.QueryBuilder.rollup", "AttributeError", "QB__rollup_twice", "pypika_tortoise.queries"),
    ("queries.QueryBuilder.rollup", "RollupException", "QB__rollup_empty", "pypika_tortoise.queries"),
    ("queries.Table.for_", "AttributeError", "Table__temporal", "pypika_tortoise.queries"),
    ("queries.Table.for_portion", "AttributeError", "Table__temporal", "pypika_tortoise.queries"),
    ("queries.CreateQueryBuilder.create_table", "AttributeError", "Create__create_table", "pypika_tortoise.queries"),
    ("queries.CreateQueryBuilder.columns", "AttributeError", "Create__columns", "pypika_tortoise.queries"),
    ("queries.CreateQueryBuilder.primary_key", "AttributeError", "Create__primary_key", "pypika_tortoise.queries"),
    ("queries.CreateQueryBuilder.as_select", "AttributeError", "Create__as_select", "pypika_tortoise.queries"),
    ("queries.CreateQueryBuilder.as_select", "TypeError", "Create__as_select_type", "pypika_tortoise.queries"),
    ("queries.DropQueryBuilder.drop_table", "AttributeError", "Drop__drop_table", "pypika_tortoise.queries"),
    ("terms.WindowFrameAnalyticFunction.rows", "AttributeError", "Window__frame", "pypika_tortoise.terms"),
    ("terms.WindowFrameAnalyticFunction.range", "AttributeError", "Window__frame", "pypika_tortoise.terms"),
    ("queries.Joiner.on", "JoinException", "Joiner__on", "pypika_tortoise.queries", "Parameter '"),
    ("queries.Joiner.on_field", "JoinException", "Joiner__nofields", "pypika_tortoise.queries", "Parameter '"),
    ("queries.Joiner.using", "JoinException", "Joiner__nofields", "pypika_tortoise.queries", "Parameter '"),
    ("dialects.postgresql.PostgreSQLQueryBuilder._return_field_str", "QueryException", "PG__return_field_str",
     "pypika_tortoise.dialects.postgresql", "can't be used"),
]

# exceptions a callee under its own contract may propagate: (function, exception) -> why it is not decided here
DELEGATED = {
    ("queries.Joiner.on", "JoinException"): "JoinOn.validate (join/validate obligations)",
    ("queries.Joiner.on_field", "JoinException"): "JoinOn.validate (join/validate obligations)",
    ("queries.Joiner.using", "JoinException"): "JoinOn.validate (join/validate obligations)",
    ("dialects.postgresql.PostgreSQLQueryBuilder._return_field_str", "QueryException"):
        "_validate_returning_term (foreign table), not decided by an iff",
}

# parameter preconditions of the functions under contract where the guard concerns an argument the general
# parameter table types more narrowly
OVERRIDES = {
    "queries.Joiner.on": {"criterion": "Criterion|None"},
}


def Case__get_sql(self, ctx):
    return len(self._cases) == 0


def QB__on_conflict(self, *target_fields):
    return not self._insert_table


def QB__do_update(self, update_field, update_value=None):
    if self._on_conflict_do_nothing:
        return True
    return not (isinstance(update_field, str) or isinstance(update_field, Field))


def QB__do_nothing(self):
    return len(self._on_conflict_do_updates) > 0


def QB__where(self, criterion):
    if isinstance(criterion, EmptyCriterion):
        return False
    if not self._on_conflict:
        return False
    if self._on_conflict_do_nothing:
        return True
    return not self._on_conflict_fields


def QB__on_conflict_sql(self, ctx):
    handler = self._on_conflict_do_nothing or len(self._on_conflict_do_updates) > 0
    if not handler:
        return bool(self._on_conflict_fields)
    return bool(self._on_conflict_do_updates) and not self._on_conflict_fields


def QB__into(self, table):
    return self._insert_table is not None


def QB__update(self, table):
    return self._update_table is not None or bool(self._selects) or bool(self._delete_from)


def QB__delete(self):
    return bool(self._delete_from) or bool(self._selects) or bool(self._update_table)


def QB__needs_insert(self, *terms):
    return self._insert_table is None


def QB__rollup_twice(self, *terms, **kwargs):
    return bool(self._mysql_rollup)


def QB__rollup_empty(self, *terms, **kwargs):
    if self._mysql_rollup:
        return False
    return "mysql" == kwargs.get("vendor") and len(terms) == 0 and len(self._groupbys) == 0


def Table__temporal(self, c):
    return bool(self._for) or bool(self._for_portion)


def Create__create_table(self, table):
    return bool(self._create_table)


def Create__columns(self, *columns):
    return bool(self._as_select)


def Create__primary_key(self, *columns):
    return bool(self._primary_key)


def Create__as_select(self, query_builder):
    return bool(self._columns)


def Create__as_select_type(self, query_builder):
    return not self._columns and not isinstance(query_builder, QueryBuilder)


def Drop__drop_table(self, table):
    return bool(self._drop_table)


def Window__frame(self, bound, and_bound=None):
    return bool(self.frame) or bool(self.bound)


def Joiner__on(self, criterion, collate=None):
    return criterion is None


def Joiner__nofields(self, *fields):
    return len(fields) == 0


def PG__return_field_str(self, term):
    if term == "*":
        return False
    return not self._insert_table and not self._update_table and not self._delete_from
