"""Specification of 'complete builder' (C13), evaluated symbolically by the verifier's own engine."""


def complete_query(self):
    if self._update_table:
        return len(self._updates) > 0
    if self._delete_from:
        return len(self._from) > 0
    if self._insert_table and not self._select_into:
        return len(self._values) > 0 or len(self._selects) > 0
    return len(self._selects) > 0


def complete_create(self):
    return bool(self._create_table) and (len(self._columns) > 0 or bool(self._as_select))


def complete_drop(self):
    return bool(self._drop_table)


def complete_load(self):
    return bool(self._load_file) and bool(self._into_table)
