"""C06 - reference precedence (loosest -> tightest), the same for all six dialects (DESIGN Appendix B.1):

    1 OR   2 XOR   3 AND   4 NOT (prefix)
    5 comparison:  = <> < <= > >=  IS NULL  [NOT] IN  BETWEEN..AND  LIKE/...  FROM..TO  (non-associative)
    6 other binary operators (JSON operators, ||)     7 + -     8 * /     9 unary minus, AT TIME ZONE     10 atoms
atoms: identifiers, literals, placeholders, f(...), CASE..END, anything in brackets, ARRAY[...], INTERVAL '...'
"""

LIT_LEVEL = {"OR": 1, "XOR": 2, "AND": 3, "NOT": 4, "IN": 5, "BETWEEN": 5, "IS": 5, "LIKE": 5, "=": 5, "<>": 5,
             "!=": 5, "<": 5, "<=": 5, ">": 5, ">=": 5, "FROM": 5, "TO": 5, "||": 6, "&": 6, "+": 7, "-": 7,
             "*": 8, "/": 8, "ALL": 5, "AT": 9}
# the AND of BETWEEN..AND belongs to the BETWEEN operator
LIT_OVERRIDE = {("terms.BetweenCriterion", "AND"): 5}

# operators printed from an enum-valued slot: (class, datum) -> {case label: level}
DYN_LEVEL = {
    ("terms.BasicCriterion", "$self.comparator.value"): {"comparison": 5, "json-operator": 6},
    ("terms.ComplexCriterion", "$self.comparator.value"): {"or": 1, "xor": 2, "and": 3},
    ("terms.NestedCriterion", "$self.comparator.value"): {"comparison": 5, "json-operator": 6},
    ("terms.NestedCriterion", "$self.nested_comparator.value"): {"or": 1, "xor": 2, "and": 3},
    ("terms.ArithmeticExpression", "$self.operator.value"): {"add": 7, "sub": 7, "mul": 8, "div": 8},
}

# declared exposure: levels of the operators a class's own text shows at bracket depth 0 (classes not listed: none,
# i.e. atomic).  Looked up along the MRO.  Verified against the code by prec/exposure.
EXPOSURE = {
    "terms.ComplexCriterion": {1, 2, 3},          # without the subcriterion flag; with it the text is bracketed
    "terms.Not": {4},
    "terms.BasicCriterion": {5, 6},
    "terms.NestedCriterion": {1, 2, 3, 5, 6},
    "terms.ContainsCriterion": {4, 5},            # NOT IN is one operator; NOT is scanned as a token of its own
    "terms.BetweenCriterion": {5},
    "terms.PeriodCriterion": {5},
    "terms.NullCriterion": {5},
    "terms.All": {5},
    "terms.ArithmeticExpression": {7, 8},
    "terms.Negative": {9},
    "terms.AtTimezone": {9},
}
# tokens that are not operators where they stand
NOT_OPERATORS = {("terms.Star", "*")}
# slots printed at depth 0 that are not expression operands
NON_OPERAND_SLOTS = {
    ("terms.ContainsCriterion", "self.container"): "row-value constructor / sub-query position: isin()/notin() wrap "
                                                   "lists in a Tuple, anything else must already be a sub-query",
    ("terms.Function", "self.schema"): "schema prefix of a function name, not a Term",
}
BRACKETED_UNDER_SUBCRITERION = {"terms.ComplexCriterion"}

ARITH = {"add": 7, "sub": 7, "mul": 8, "div": 8}


def must_paren_arith(parent: str, child: str, side: str) -> bool:
    """child arithmetic expression directly under a parent arithmetic operator"""
    p, c = ARITH[parent], ARITH[child]
    if c < p:
        return True
    if c > p:
        return False
    if side == "left":
        return False                      # left-associative
    # right operand of equal level: regrouping is value-preserving only for  a+(b+c) a+(b-c)  a*(b*c)
    if parent == "add":
        return False
    if parent == "mul" and child == "mul":
        return False
    return True


def must_paren(parent_level: int, child_level: int, side: str) -> bool:
    """generic operand: an operator of level child_level exposed by a child placed on `side` of an operator of
    level parent_level"""
    if child_level < parent_level:
        return True
    if child_level > parent_level:
        return False
    if parent_level in (1, 2, 3):
        return False                      # same connective: value-preserving chain
    if parent_level == 4:
        return False                      # NOT NOT x
    if parent_level == 5:
        return True                       # comparisons do not associate
    if parent_level == 6:
        return side == "right"
    if parent_level == 9:
        return False                      # -(-x) groups itself; token fusion is prec/fuse
    return side == "right"
