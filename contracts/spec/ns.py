"""Reference specification functions for C11, written in the Python subset of the verifier and evaluated
symbolically by the same engine on the same pre-state (so they share the atoms of the code under verification).
Transcribed from the statement of C11: references are qualified when more than one row source is in scope -
joins, several FROM items, a sub-query in FROM, UPDATE ... FROM, or a WHERE clause referring to a table outside the
statement's own sources (the foreign-table flag)."""


def NS(self):
    return (
        bool(self._joins)
        or len(self._from) > 1
        or (len(self._from) > 0 and isinstance(self._from[0], QueryBuilder))
        or self._foreign_table
        or bool(self._update_table and self._from)
    )


def NS_setop_too(self):
    # a set operation in FROM always carries an alias, which forces qualification by itself: either reading of
    # "a sub-query in FROM" is observationally the same
    return (
        bool(self._joins)
        or len(self._from) > 1
        or (len(self._from) > 0 and isinstance(self._from[0], (QueryBuilder, _SetOperation)))
        or self._foreign_table
        or bool(self._update_table and self._from)
    )


def field_qualified(self, ctx):
    return bool(self.table and (ctx.with_namespace or self.table.alias))


def table_name_of_table(self):
    return self.alias or self._table_name
