"""Reference grammar tables (DESIGN Appendix B.3), transcribed from the statements of C09 and C13."""

# ---- C09: the row-limiting clause per builder class as a function of what is set.
# <L> / <O> are the rendered limit / offset values.  None = the combination is not grammatical in the dialect
# whatever the library emits (reported as a finding when the library emits text for it).


def row_limit(cls_short: str, has_limit: bool, has_offset: bool, has_order: bool):
    d = cls_short.split(".")[-1]
    if d == "MSSQLQueryBuilder":
        if not has_limit and not has_offset:
            return ""
        s = "" if has_order else " ORDER BY (SELECT 0)"
        s += " OFFSET " + ("<O>" if has_offset else "0") + " ROWS"
        if has_limit:
            s += " FETCH NEXT <L> ROWS ONLY"
        return s
    if d == "OracleQueryBuilder":
        s = ""
        if has_offset:
            s += " OFFSET <O> ROWS"
        if has_limit:
            s += " FETCH NEXT <L> ROWS ONLY"
        return s
    # SQLite, MySQL, PostgreSQL and the generic builder (which renders for SQLite):  LIMIT n [OFFSET m]
    if has_limit:
        return " LIMIT <L>" + (" OFFSET <O>" if has_offset else "")
    if has_offset:
        if d == "PostgreSQLQueryBuilder":
            return " OFFSET <O>"          # PostgreSQL accepts a bare OFFSET (D4)
        return None                       # OFFSET without LIMIT is not in the grammar LIMIT n [OFFSET m]
    return ""


# ---- C13: clause order per statement kind (keywords at bracket depth 0, in the order they may appear)
SELECT_ORDER = ["WITH", "SELECT", "INTO", "FROM", "FORCE INDEX", "USE INDEX", "JOIN", "PREWHERE", "WHERE", "GROUP BY",
                "WITH ROLLUP", "WITH TOTALS", "HAVING", "ORDER BY", "LIMIT", "OFFSET", "FETCH NEXT", "FOR UPDATE",
                "ON CONFLICT", "ON DUPLICATE KEY UPDATE", "DO NOTHING", "DO UPDATE SET", "RETURNING"]
