"""Preconditions on parameters of functions under contract (type specs, grammar of contracts/invariants.py).
Derived from the call sites inside the package (never from annotations alone)."""

BY_NAME = {
    "ctx": "SqlContext",
    "current_table": "Table|None",
    "new_table": "Table|None",
    "criterion": "Term|EmptyCriterion",
    "querystring": "str",
    "sql": "str",
}

BY_FUNC = {
    "terms.AnalyticFunction._orderby_field": {"field": "Node", "orient": "Order|None"},
    "queries.QueryBuilder._list_aliases": {"field_set": "list[Node]"},
    "utils.format_alias_sql": {"sql": "str", "alias": "name|None"},
    "utils.format_quotes": {"value": "any", "quote_char": "str|None"},
    "terms.ArithmeticExpression.left_needs_parens": {"curr_op": "Arithmetic", "left_op": "any"},
    "terms.ArithmeticExpression.right_needs_parens": {"curr_op": "Arithmetic", "right_op": "any"},
    "terms.ComplexCriterion.needs_brackets": {"term": "Node"},
    # the formatter of a constant wrapper receives the wrapped (plain, non-Node) user value
    "terms.ValueWrapper.get_formatted_value": {"value": "value"},
    "terms.JSON._get_str_sql": {"value": "str", "quote_char": "str"},
    "terms.JSON._get_dict_sql": {"value": "data"},
    "terms.JSON._get_list_sql": {"value": "data"},
    "terms.JSON._recursive_get_sql": {"value": "data"},
}
