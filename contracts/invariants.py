"""Class invariants: abstract type of every instance attribute (DESIGN §3).

Spec grammar:  scalar union  `A|B|None`  with A,B class names (short or unique bare name) or external kinds
               (str int bool float list tuple set dict Enum any);  `name` = a str that is user-supplied identifier
               text (C07);  `sql` = a str that is SQL text by contract;  `value` = opaque user value (C05);
               containers  `list[spec]`, `set[spec]`, `tuple[spec,spec]` (fixed arity), `tuple[spec,...]`.
The table is *checked*, not trusted: obligation family inv/established (every `__init__` assigns a value of the
declared type) and inv/preserved (every store in a builder conforms) are generated in c01 / c15.
Attributes are inherited along the MRO.
"""

NODE = "Node"          # anything wrap_constant may return / an operand: Term, Selectable or Interval

SLOTS: dict[str, dict[str, str]] = {
    "terms.Term": {"alias": "name|None"},
    "terms.Parameter": {"_placeholder": "sql|None", "_idx": "int|None"},
    "terms.Parameterizer": {"placeholder_factory": "any", "values": "list[value]"},
    "terms.Negative": {"term": NODE},
    "terms.ValueWrapper": {"value": "value", "allow_parametrize": "bool"},
    "terms.JSON": {"value": "data"},
    "terms.Values": {"field": "Field"},
    "terms.LiteralValue": {"_value": "sql"},
    "terms.Field": {"name": "name", "table": "Selectable|None"},
    "terms.Index": {"name": "name"},
    "terms.Tuple": {"values": f"list[{NODE}]"},
    "terms.Array": {"original_value": "list[value]"},
    "terms.NestedCriterion": {"left": NODE, "right": NODE, "nested": NODE, "comparator": "Enum",
                              "nested_comparator": "Enum"},
    "terms.BasicCriterion": {"comparator": "Enum", "left": NODE, "right": NODE},
    "terms.ContainsCriterion": {"term": NODE, "container": NODE, "_is_negated": "bool"},
    "terms.RangeCriterion": {"term": NODE, "start": NODE, "end": NODE},
    "terms.BitwiseAndCriterion": {"term": NODE, "value": NODE},
    "terms.NullCriterion": {"term": NODE},
    "terms.ArithmeticExpression": {"operator": "Arithmetic", "left": NODE, "right": NODE},
    "terms.Case": {"_cases": f"list[tuple[{NODE},{NODE}]]", "_else": f"{NODE}|None"},
    "terms.Not": {"term": NODE},
    "terms.All": {"term": NODE},
    "terms.CustomFunction": {"name": "sql", "params": "any"},
    "terms.Function": {"name": "sql", "args": f"list[{NODE}]", "schema": "Schema|None"},
    "terms.AggregateFunction": {"_filters": f"list[{NODE}]", "_include_filter": "bool"},
    "terms.AnalyticFunction": {"_partition": "list[any]", "_orderbys": f"list[tuple[{NODE},Order|None]]",
                               "_include_over": "bool"},
    "terms.WindowFrameAnalyticFunction": {"frame": "sql|None",
                                          "bound": "sql|terms.WindowFrameAnalyticFunction.Edge|tuple|None"},
    "terms.WindowFrameAnalyticFunction.Edge": {"value": "any"},
    "terms.IgnoreNullsAnalyticFunction": {"_ignore_nulls": "bool"},
    "terms.Interval": {"dialect": "Dialects|None", "largest": "str|None", "smallest": "str|None",
                       "is_negative": "bool"},
    "terms.PseudoColumn": {"name": "sql"},
    "terms.AtTimezone": {"field": "Field", "zone": "sql", "interval": "data"},
    "functions.DistinctOptionFunction": {"_distinct": "bool"},
    "functions.ApproximatePercentile": {"percentile": "float"},
    "functions.Cast": {"as_type": "sql|SqlType|SqlTypeLength"},
    "functions.Convert": {"encoding": "Enum"},
    "functions.Extract": {"field": NODE},
    "enums.SqlType": {"name": "sql"},
    "enums.SqlTypeLength": {"name": "sql", "length": "int"},
    "queries.Selectable": {"alias": "name|None"},
    "queries.AliasedQuery": {"name": "name", "query": "Selectable|None"},
    "queries.Cte": {"terms": "tuple[Term,...]"},
    "queries.Schema": {"_name": "name", "_parent": "Schema|None"},
    "queries.Table": {"_table_name": "name", "_schema": "Schema|None", "_query_cls": "querycls",
                      "_for": f"{NODE}|None", "_for_portion": f"{NODE}|None"},
    "queries.Column": {"name": "name", "type": "sql|None", "nullable": "bool|None", "default": "Term|None"},
    "queries.PeriodFor": {"name": "name", "start_column": "Column", "end_column": "Column"},
    "queries._SetOperation": {"base_query": "QueryBuilder",
                              "_set_operation": "list[tuple[SetOperation,QueryBuilder]]",
                              "_orderbys": f"list[tuple[{NODE},Order|None]]",
                              "_limit": f"{NODE}|None", "_offset": f"{NODE}|None", "_wrapper_cls": "any"},
    "queries.QueryBuilder": {
        "_from": "list[Selectable]", "_insert_table": "Table|None", "_update_table": "Table|None",
        "_delete_from": "bool", "_replace": "bool", "_with": "list[Cte]", "_selects": f"list[{NODE}]",
        "_force_indexes": "list[Index]", "_use_indexes": "list[Index]", "_columns": f"list[{NODE}]",
        "_values": f"list[list[{NODE}]]", "_distinct": "bool", "_for_update": "bool",
        "_for_update_nowait": "bool", "_for_update_skip_locked": "bool", "_for_update_of": "set[name]",
        "_wheres": f"{NODE}|None", "_prewheres": f"{NODE}|None", "_groupbys": f"list[{NODE}]",
        "_with_totals": "bool", "_havings": f"{NODE}|None", "_orderbys": f"list[tuple[{NODE},Order|None]]",
        "_joins": "list[Join]", "_unions": "list[any]", "_limit": f"{NODE}|None", "_offset": f"{NODE}|None",
        "_updates": f"list[tuple[Field,{NODE}]]", "_select_star": "bool",
        "_select_star_tables": "set[Selectable]", "_mysql_rollup": "bool", "_select_into": "bool",
        "_subquery_count": "int", "_foreign_table": "bool", "wrap_set_operation_queries": "bool",
        "_wrapper_cls": "any", "immutable": "bool", "_on_conflict": "bool",
        "_on_conflict_fields": f"list[{NODE}|None]", "_on_conflict_do_nothing": "bool",
        "_on_conflict_do_updates": f"list[tuple[Field|None,{NODE}|None]]",
        "_on_conflict_wheres": f"{NODE}|None", "_on_conflict_do_update_wheres": f"{NODE}|None"},
    "dialects.mssql.MSSQLQueryBuilder": {"_top": "int|None"},
    "dialects.mysql.MySQLQueryBuilder": {"_modifiers": "list[sql]"},
    "dialects.mysql.MySQLLoadQueryBuilder": {"_load_file": "sql|None", "_into_table": "Table|None"},
    "dialects.postgresql.PostgreSQLQueryBuilder": {"_returns": f"list[{NODE}]", "_return_star": "bool",
                                                   "_distinct_on": f"list[{NODE}]"},
    "queries.Joiner": {"query": "QueryBuilder", "item": "Selectable", "how": "JoinType", "type_label": "str"},
    "queries.Join": {"item": "Selectable", "how": "JoinType"},
    "queries.JoinOn": {"criterion": NODE, "collate": "sql|None"},
    "queries.JoinUsing": {"fields": "list[Field]"},
    "queries.CreateQueryBuilder": {
        "_create_table": "Table|None", "_temporary": "bool", "_unlogged": "bool",
        "_as_select": "QueryBuilder|None", "_columns": "list[Column]", "_period_fors": "list[PeriodFor]",
        "_with_system_versioning": "bool", "_primary_key": "list[Column]|None",
        "_uniques": "list[list[Column]]", "_if_not_exists": "bool", "dialect": "any"},
    "queries.DropQueryBuilder": {"_drop_table": "Table|None", "_if_exists": "bool|None"},
    "context.SqlContext": {
        "quote_char": "str", "secondary_quote_char": "str", "alias_quote_char": "str", "dialect": "Dialects",
        "as_keyword": "bool", "subquery": "bool", "with_alias": "bool", "with_namespace": "bool",
        "subcriterion": "bool", "parameterizer": "Parameterizer|None", "groupby_alias": "bool",
        "orderby_alias": "bool"},
}

# interval components are set with setattr only when non-zero
for _u in ("years", "months", "days", "hours", "minutes", "seconds", "microseconds", "quarters", "weeks"):
    SLOTS["terms.Interval"][_u] = "int"
OPTIONAL_ATTRS = {"terms.Interval": {"years", "months", "days", "hours", "minutes", "seconds", "microseconds",
                                     "quarters", "weeks"}}


# Class invariant facts (python expressions over `self`, evaluated by the verifier's own engine and assumed for the
# pre-state; established by the builders that set the attributes involved).
FACTS = {
    "queries.QueryBuilder": ["bool(self._insert_table) or not self._on_conflict",
                             "not self._select_into or (len(self._selects) > 0 and bool(self._insert_table))"],
    "terms.AnalyticFunction": ["self._include_over or (len(self._partition) == 0 and len(self._orderbys) == 0)"],
    "terms.AggregateFunction": ["self._include_filter or len(self._filters) == 0"],
}
