/-! L-ESC-MYSQL: quote doubling followed by backslash doubling is undone by MySQL's string lexer. -/
def bs : Char := '\\'
/-- what the code computes: replace q by qq, then \ by \\ (q ≠ \) — as one pass -/
def escMy (q : Char) : List Char → List Char
  | [] => []
  | c :: cs => if c = q then q :: q :: escMy q cs else if c = bs then bs :: bs :: escMy q cs else c :: escMy q cs

/-- MySQL lexer body (default sql_mode): `\x` is an escape (here only `\\` matters, any other `\x` yields x),
    `qq` is a quote, a lone `q` ends the literal. -/
def lexMy (q : Char) : List Char → Option (List Char × List Char)
  | [] => none
  | [c] => if c = q then some ([], []) else none
  | c :: d :: rest =>
    if c = q then
      if d = q then (lexMy q rest).map (fun (s, r) => (q :: s, r))
      else some ([], d :: rest)
    else if c = bs then (lexMy q rest).map (fun (s, r) => (d :: s, r))
    else (lexMy q (d :: rest)).map (fun (s, r) => (c :: s, r))

theorem lexMy_esc (q : Char) (hq : q ≠ bs) (s rest : List Char) (h : rest.head? ≠ some q) :
    lexMy q (escMy q s ++ q :: rest) = some (s, rest) := by
  induction s with
  | nil =>
    cases rest with
    | nil => simp [escMy, lexMy]
    | cons d ds =>
      have : d ≠ q := by intro e; apply h; simp [e]
      simp [escMy, lexMy, this]
  | cons c cs ih =>
    by_cases hc : c = q
    · subst hc; simp [escMy, lexMy, ih]
    · by_cases hb : c = bs
      · subst hb
        have : bs ≠ q := fun e => hq e.symm
        simp [escMy, lexMy, ih, this]
      · cases hcs : escMy q cs ++ q :: rest with
        | nil => simp at hcs
        | cons d ds =>
          simp [escMy, hc, hb, lexMy, hcs]
          rw [← hcs, ih]

/-- Python's `s.replace(a, a+a)` for a one-character `a` (axiom S4, cross-checked bounded). -/
def rep1 (a : Char) : List Char → List Char
  | [] => []
  | c :: cs => if c = a then a :: a :: rep1 a cs else c :: rep1 a cs

theorem two_pass (q : Char) (hq : q ≠ bs) (s : List Char) :
    rep1 bs (rep1 q s) = escMy q s := by
  induction s with
  | nil => simp [rep1, escMy]
  | cons c cs ih =>
    by_cases hc : c = q
    · subst hc; simp [rep1, escMy, hq, ih]
    · by_cases hb : c = bs
      · subst hb; simp [rep1, escMy, hc, ih]
      · simp [rep1, escMy, hc, hb, ih]
