/-! L-FRAME: writes confined to fresh/owned locations cannot change what an earlier object renders. -/
namespace Frame
variable {Loc Val Obj Out : Type}

abbrev Heap (Loc Val : Type) := Loc → Val

/-- `render` has footprint `reach`: it depends on the heap only inside `reach h o`. -/
def HasFootprint (render : Heap Loc Val → Obj → Out) (reach : Heap Loc Val → Obj → Loc → Prop) : Prop :=
  ∀ h h' o, (∀ l, reach h o l → h l = h' l) → render h o = render h' o

/-- one builder call: heap `h` becomes `h'`, writing only locations in `W`. -/
structure Step (Loc Val : Type) where
  pre  : Heap Loc Val
  post : Heap Loc Val
  W    : Loc → Prop
  frame : ∀ l, ¬ W l → pre l = post l

/-- single step: if the written set is disjoint from what `o` reaches, `o` renders the same. -/
theorem step_preserves
    (render : Heap Loc Val → Obj → Out) (reach : Heap Loc Val → Obj → Loc → Prop)
    (fp : HasFootprint render reach) (s : Step Loc Val) (o : Obj)
    (disj : ∀ l, reach s.pre o l → ¬ s.W l) :
    render s.pre o = render s.post o :=
  fp s.pre s.post o (fun l hl => s.frame l (disj l hl))

/-- ownership discipline: every written location is fresh (not allocated before the call) or owned
    (allocated by the receiver copy in this call, hence also not allocated before); live objects
    reach only allocated locations. -/
theorem owned_disjoint
    (reach : Heap Loc Val → Obj → Loc → Prop) (alloc : Loc → Prop) (s : Step Loc Val) (o : Obj)
    (live : ∀ l, reach s.pre o l → alloc l)
    (fresh : ∀ l, s.W l → ¬ alloc l) :
    ∀ l, reach s.pre o l → ¬ s.W l :=
  fun l hl hw => fresh l hw (live l hl)

/-- histories: a chain of heaps, consecutive ones related by disciplined steps. -/
inductive Chain (render : Heap Loc Val → Obj → Out) (o : Obj) : Heap Loc Val → Heap Loc Val → Prop
  | refl (h) : Chain render o h h
  | snoc {h₀ h₁ h₂} : Chain render o h₀ h₁ → render h₁ o = render h₂ o → Chain render o h₀ h₂

theorem chain_preserves (render : Heap Loc Val → Obj → Out) (o : Obj) {h₀ h₁ : Heap Loc Val}
    (c : Chain render o h₀ h₁) : render h₀ o = render h₁ o := by
  induction c with
  | refl => rfl
  | snoc _ e ih => exact ih.trans e
end Frame
