def esc (q : Char) : List Char → List Char
  | [] => []
  | c :: cs => if c = q then q :: q :: esc q cs else c :: esc q cs

/-- lex the body of a quoted literal after the opening quote: returns decoded text and the remaining input -/
def lexBody (q : Char) : List Char → Option (List Char × List Char)
  | [] => none
  | [c] => if c = q then some ([], []) else none
  | c :: d :: rest =>
    if c = q then
      if d = q then (lexBody q rest).map (fun (s, r) => (q :: s, r))
      else some ([], d :: rest)
    else (lexBody q (d :: rest)).map (fun (s, r) => (c :: s, r))

theorem lex_esc (q : Char) (s rest : List Char) (h : rest.head? ≠ some q) :
    lexBody q (esc q s ++ q :: rest) = some (s, rest) := by
  induction s with
  | nil =>
    cases rest with
    | nil => simp [esc, lexBody]
    | cons d ds =>
      have : d ≠ q := by intro e; apply h; simp [e]
      simp [esc, lexBody, this]
  | cons c cs ih =>
    by_cases hc : c = q
    · subst hc; simp [esc, lexBody, ih]
    · cases hcs : esc q cs ++ q :: rest with
      | nil => simp at hcs
      | cons d ds =>
        simp [esc, hc, lexBody, hcs]
        rw [← hcs, ih]
