"""Driver: symbolic execution of one function under contract for one concrete receiver class."""
from __future__ import annotations

import ast
import os
import time
from dataclasses import dataclass, field

from .front import ClassInfo, FuncInfo, Repo, repo
from .state import Outcome, PathEnd, State, Unsupported
from .symex import Exec
from .values import K, Obj, PreSeq, Sym, Tags, Tu

_TAGS = None


def tags(r: Repo) -> Tags:
    global _TAGS
    if _TAGS is None or _TAGS.repo is not r:
        _TAGS = Tags(r)
    return _TAGS


from contracts.params import BY_FUNC, BY_NAME as PARAM_SPECS


@dataclass
class Run:
    fi: FuncInfo
    ci: ClassInfo | None
    ex: Exec
    outcomes: list
    self_obj: object
    params: dict
    error: str | None = None
    wall: float = 0.0


def param_spec(fi: FuncInfo, name: str, default: ast.expr | None, overrides: dict | None) -> str:
    if overrides and name in overrides:
        return overrides[name]
    if fi.short in BY_FUNC and name in BY_FUNC[fi.short]:
        return BY_FUNC[fi.short][name]
    spec = PARAM_SPECS.get(name, "any")
    if name == "ctx" and isinstance(default, ast.Constant) and default.value is None:
        spec = "SqlContext|None"
    # `ctx: SqlContext | None` without default (CreateQueryBuilder.get_sql)
    return spec


def run_function(fi: FuncInfo, ci: ClassInfo | None = None, overrides: dict | None = None, r: Repo | None = None,
                 undecorated=False, self_fresh=False, limit=None, pre=None, budget_s=None, inline_self=False, contract_self=None) -> Run:
    r = r or repo()
    ex = Exec(r, tags(r))
    budget_s = budget_s or float(os.environ.get("PYVC_FUNC_BUDGET", "120"))
    ex.deadline = time.time() + budget_s
    node = fi.node
    a = node.args
    params = {}
    self_obj = None
    names = [p.arg for p in a.posonlyargs + a.args]
    defaults = [None] * (len(names) - len(a.defaults)) + list(a.defaults)
    args = []
    for i, (n, d) in enumerate(zip(names, defaults)):
        if i == 0 and fi.kind in ("method", "property"):
            self_obj = ex.alloc("inst", self_fresh, "self", cls=ci or fi.cls)
            ex.path_obj["self"] = self_obj.oid
            args.append(self_obj)
            params[n] = self_obj
            continue
        if i == 0 and fi.kind == "class":
            from .values import Fn
            v = Fn("class", ci or fi.cls)
            args.append(v)
            params[n] = v
            continue
        spec = param_spec(fi, n, d, overrides)
        ann = None
        if spec == "any" and n == "ctx":
            spec = "SqlContext"
        v = ex.make_sym(n, spec)
        args.append(v)
        params[n] = v
    kwargs = {}
    if a.vararg:
        spec = (overrides or {}).get("*" + a.vararg.arg, "any")
        args.append(("*", PreSeq(a.vararg.arg, spec)))
    for p in a.kwonlyargs:
        kwargs[p.arg] = ex.make_sym(p.arg, param_spec(fi, p.arg, None, overrides))
        params[p.arg] = kwargs[p.arg]
    if a.kwarg:
        kwargs["**"] = Sym(a.kwarg.arg, None)

    def go():
        if undecorated:
            return ex.call_body(fi, list(args), dict(kwargs), self_obj)
        return ex.call_function(fi, list(args), dict(kwargs), self_obj)

    t0 = time.time()
    run = Run(fi, ci, ex, [], self_obj, params)
    if pre is not None:
        pre(ex, self_obj, params)
    # class invariant facts of the receiver are assumed for the pre-state
    if self_obj is not None and not self_fresh:
        from contracts.invariants import FACTS
        cls_ = ci or fi.cls
        for k in cls_.mro:
            for src in FACTS.get(k.short, ()):
                try:
                    node = ast.parse(src, mode="eval").body
                    from .state import Frame
                    ex.frames.append(Frame(None, k, {"self": self_obj}, self_obj, k.module))
                    try:
                        v = ex.eval(node)
                    finally:
                        ex.frames.pop()
                    ex.st.pc.append(ex.truth(v))
                except Exception as e:      # a fact that cannot be evaluated is reported, not ignored
                    ex.note(f"fact-not-evaluated:{k.short}:{e!r}")
    ex.reads_global.clear()        # reads made while evaluating the invariant facts do not count
    if fi.name != "get_sql" and not inline_self:
        ex.contract_self_methods = {"get_sql"}
    if contract_self:
        ex.contract_self_methods = set(contract_self)
    try:
        outs = ex.explore(go, limit=limit)
        for o in outs:
            if o.status == "normal":
                o.status = "return"
        run.outcomes = outs
    except Unsupported as e:
        run.error = f"unsupported: {e}"
    except RecursionError:
        run.error = "unsupported: recursion depth"
    run.wall = time.time() - t0
    return run
