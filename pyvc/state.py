"""Execution state of the symbolic executor: locals, heap, path condition, effect and write logs."""
from __future__ import annotations

import copy as _copy
from dataclasses import dataclass, field

from .values import HObj, V


class Unsupported(Exception):
    """construct outside the supported subset: the function is reported UNSUPPORTED, never silently skipped"""


class MergeAbort(Exception):
    pass


class Restart(Exception):
    """an early-return merge turned out to be unsound to keep (a raise followed): redo without merging that if"""

    def __init__(self, keys, calls=()):
        self.keys = keys
        self.calls = set(calls)      # callees that cannot be executed as one merged unit


class PathEnd(Exception):
    """control-flow signals inside one explored path"""

    def __init__(self, kind, value=None):
        self.kind = kind          # return | raise | break | continue | infeasible
        self.value = value


@dataclass
class Effect:
    kind: str                      # call | loop | raise-site | opaque
    cid: int = 0
    method: str = ""
    recv: V | None = None
    args: tuple = ()
    kwargs: dict = field(default_factory=dict)
    guard: object = None           # z3 cond relative to the enclosing path (merge guards)
    result: V | None = None
    site: str = ""                 # semantic site key
    body: list = field(default_factory=list)    # for loops: [(guard, [effects])]
    seq: object = None
    elem: V | None = None
    lid: int = 0
    lineno: int = 0
    pure: bool = True
    recv_tags: object = None


@dataclass
class Write:
    target: int                    # oid of the written heap object (or -1 for a concrete/global object)
    kind: str                      # attr | append | extend | setitem | delitem | add | remove | clear | update | ...
    attr: str
    owned: bool                    # target fresh at the time of the write
    guard: object
    path: str                      # canonical path of the target
    value: V | None = None
    lineno: int = 0
    func: str = ""
    in_loop: bool = False
    note: str = ""


class State:
    def __init__(self):
        self.locals: dict[str, V] = {}
        self.heap: dict[int, HObj] = {}
        self.pc: list = []
        self.effects: list[Effect] = []
        self.writes: list[Write] = []
        self.reads: list = []          # (oid, attr) reads of pre-state attributes
        self.notes: list[str] = []
        self.tagset: dict = {}

    def snapshot(self) -> "State":
        s = State()
        s.locals = dict(self.locals)
        s.heap = {k: h.clone() for k, h in self.heap.items()}
        s.pc = list(self.pc)
        s.effects = list(self.effects)
        s.writes = list(self.writes)
        s.reads = list(self.reads)
        s.notes = list(self.notes)
        s.tagset = dict(self.tagset)
        return s

    def restore(self, o: "State"):
        self.locals, self.heap, self.pc = o.locals, o.heap, o.pc
        self.effects, self.writes, self.reads, self.notes = o.effects, o.writes, o.reads, o.notes
        self.tagset = o.tagset


@dataclass
class Frame:
    func: object                   # FuncInfo or None (lambda / module)
    cls: object                    # defining ClassInfo for super()
    locals: dict
    self_val: V | None = None
    module: object = None
    pending: list = field(default_factory=list)      # merged early returns: (guard, value, effect index, if key)
    loop_depth: int = 0
    entry_merge_depth: int = 0


@dataclass
class Outcome:
    status: str                    # return | raise | normal | break | continue
    value: V | None
    state: State
    decisions: tuple = ()
    exc: object = None
    locals: dict = field(default_factory=dict)
    guard: object = None
