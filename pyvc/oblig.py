"""Obligations, verdicts, known findings, evidence (DESIGN §2.7, §6.2, §7)."""
from __future__ import annotations

import json
import os
import time
from dataclasses import asdict, dataclass, field

VERIF = os.path.dirname(os.path.dirname(os.path.abspath(__file__)))

PROVED, REFUTED, UNKNOWN, UNSUPPORTED, BOUNDED_OK = "PROVED", "REFUTED", "UNKNOWN", "UNSUPPORTED", "BOUNDED-OK"


@dataclass
class Obligation:
    prop: str
    key: str                       # semantic key: <func>@<class>|<kind>|<site>
    kind: str                      # obligation family member, e.g. frame/write
    func: str                      # function under contract (short qualified name)
    status: str
    detail: str = ""               # the contract clause / what was shown
    reason: str = ""               # verifier output for a refutation (model, structural reason)
    backend: str = "z3"
    solver_s: float = 0.0
    witness: dict | None = None    # hint for the witness synthesiser
    bounded: str = ""              # bound when this is a bounded stand-in

    @property
    def full_key(self):
        return f"{self.prop}|{self.key}"


@dataclass
class Report:
    prop: str
    tier: str
    obligations: list = field(default_factory=list)
    functions: dict = field(default_factory=dict)       # qual -> source hash
    assumptions: list = field(default_factory=list)
    trusted: list = field(default_factory=list)
    inlined: list = field(default_factory=list)
    closed_world: list = field(default_factory=list)
    selftest: dict = field(default_factory=dict)
    notes: list = field(default_factory=list)
    t0: float = field(default_factory=time.time)

    def add(self, ob: Obligation):
        self.obligations.append(ob)

    def count(self, status):
        return sum(1 for o in self.obligations if o.status == status)


def load_known() -> dict:
    p = os.path.join(VERIF, "known_findings.json")
    if not os.path.exists(p):
        return {"open": [], "fixed": []}
    return json.load(open(p))


COMMON_ASSUMPTIONS = [
    "S1 no monkey-patching/metaclasses/__slots__; attribute lookup = instance dict -> class MRO -> __getattr__",
    "S2 CPython left-to-right evaluation order (call arguments, keyword arguments in source order)",
    "S3 int is mathematical; str is a finite sequence of code points (free monoid in the shape layer)",
    "S4 builtins and library calls are axiomatised, not executed (len isinstance getattr hasattr str int abs max "
    "any all zip list tuple set sorted reduce copy.copy str.join/format/replace json.dumps re.sub)",
    "S5 user-supplied values and names are opaque data; user subclasses of package classes are outside the "
    "closed world",
    "S6 termination is not proved",
    "T1 the VC generator pyvc itself (front end, symbolic executor, shape layer) is trusted; no deductive verifier "
    "for Python is installed",
    "T2 z3 4.x/5.x (python API) is trusted",
    "class invariants in contracts/invariants.py (slot types) are assumed for pre-state objects",
]
