"""z3 helpers: atoms keyed by canonical strings, tag variables, feasibility / implication checks."""
from __future__ import annotations

import time

import z3

from .values import Tags

TRUE = z3.BoolVal(True)
FALSE = z3.BoolVal(False)


class Smt:
    def __init__(self, tags: Tags):
        self.tags = tags
        self.atoms: dict[str, z3.BoolRef] = {}
        self.ints: dict[str, z3.ArithRef] = {}
        self.tagvars: dict[str, object] = {}
        self.axioms: list = []          # global facts about atoms (linking truthiness, tags, lengths)
        self.queries = 0
        self.solver_s = 0.0
        self._truthy_done: set[str] = set()
        self.tagforms: dict = {}
        self.cache: dict = {}
        self.cache_hits = 0
        self._keep: list = []
        self._ax_ids: set = set()
        self._atoms_cache: dict = {}
        self.nbr: dict = {}
        self._n_nbr = 0
        self._live_axioms: list = []
        self.tagatoms: dict = {}
        self.universe: dict = {}

    # ---- variables
    def atom(self, key: str) -> z3.BoolRef:
        a = self.atoms.get(key)
        if a is None:
            a = z3.Bool(key)
            self.atoms[key] = a
        return a

    def int(self, key: str, nonneg=False) -> z3.ArithRef:
        a = self.ints.get(key)
        if a is None:
            a = z3.Int(key)
            self.ints[key] = a
            if nonneg:
                self.axioms.append(a >= 0)
        return a

    def tag(self, path: str, allowed: frozenset | None = None):
        """declare the possible kinds of the datum at `path` (kept for the universe of complements)"""
        if allowed is not None and path not in self.universe:
            self.universe[path] = frozenset(allowed)
        return None

    def tag_in(self, path: str, names: frozenset, allowed: frozenset | None = None):
        """propositional atom 'kind(path) in names'; atoms over one path are linked pairwise by
        subset / disjointness / covering axioms, so z3 only ever sees propositional logic"""
        if allowed is None:
            allowed = self.universe.get(path)
        else:
            self.universe.setdefault(path, frozenset(allowed))
        names = frozenset(names)
        if allowed is not None:
            names = names & allowed
            if names == allowed:
                return TRUE
        if not names:
            return FALSE
        key = (path, names)
        a = self.tagatoms.get(key)
        if a is not None:
            return a
        label = ",".join(sorted(names)) if len(names) <= 3 else f"{len(names)}kinds:{abs(hash(names)) % 100000}"
        a = z3.Bool(f"kind!{path}!in[{label}]")
        univ = allowed if allowed is not None else self.tags.all()
        for (p2, n2), b in list(self.tagatoms.items()):
            if p2 != path:
                continue
            if names <= n2:
                self.axioms.append(z3.Implies(a, b))
            if n2 <= names:
                self.axioms.append(z3.Implies(b, a))
            if not (names & n2):
                self.axioms.append(z3.Or(z3.Not(a), z3.Not(b)))
            if (names | n2) >= univ:
                self.axioms.append(z3.Or(a, b))
        self.tagatoms[key] = a
        self.tagforms[a.get_id()] = (path, names, allowed)
        return a

    def truthy(self, path: str, allowed: frozenset | None = None) -> z3.BoolRef:
        """truthiness atom of the symbolic datum at `path`, linked to its kind"""
        a = self.atom("truthy!" + path)
        if path not in self._truthy_done:
            self._truthy_done.add(path)
            poss = allowed if allowed is not None else self.tags.all()
            if "NoneType" in poss:
                self.axioms.append(z3.Implies(self.tag_in(path, frozenset({"NoneType"}), allowed), z3.Not(a)))
            at = frozenset(n for n in poss if n in self.tags.always_true)
            if at:
                self.axioms.append(z3.Implies(self.tag_in(path, at, allowed), a))
        return a

    # ---- cheap relevance analysis (which atoms can a path condition say anything about)
    def atoms_of(self, f) -> frozenset:
        i = f.get_id()
        r = self._atoms_cache.get(i)
        if r is not None:
            return r
        out = set()
        stack = [f]
        seen = set()
        while stack:
            x = stack.pop()
            xi = x.get_id()
            if xi in seen:
                continue
            seen.add(xi)
            if z3.is_const(x):
                if x.decl().kind() == z3.Z3_OP_UNINTERPRETED:
                    out.add(xi)
                continue
            stack.extend(x.children())
        r = frozenset(out)
        self._atoms_cache[i] = r
        self._keep.append(f)
        return r

    def sync_axioms(self):
        while self._n_nbr < len(self.axioms):
            a = self.axioms[self._n_nbr]
            self._n_nbr += 1
            ats = self.atoms_of(a)
            for x in ats:
                self.nbr.setdefault(x, set()).update(ats)

    def related(self, pc, f) -> bool:
        """can pc (together with the axioms, one step) say anything about f?"""
        self.sync_axioms()
        fa = set(self.atoms_of(f))
        for x in list(fa):
            fa |= self.nbr.get(x, set())
        for p in pc:
            pa = self.atoms_of(p)
            if not fa.isdisjoint(pa):
                return True
            for x in pa:
                n = self.nbr.get(x)
                if n and not fa.isdisjoint(n):
                    return True
        return False

    # ---- queries
    def _base(self):
        """persistent solver holding the global axioms (added incrementally)"""
        if getattr(self, "_solver_obj", None) is None:
            self._solver_obj = z3.Solver()
            self._solver_obj.set("timeout", 10000)
            self._n_ax = 0
        s = self._solver_obj
        if self._n_ax < len(self.axioms):
            new = []
            for a in self.axioms[self._n_ax:]:
                i = a.get_id()
                if i not in self._ax_ids:
                    self._ax_ids.add(i)
                    new.append(a)
                    self._live_axioms.append(a)
            if new:
                s.add(new)
                self.cache = {k: v for k, v in self.cache.items() if v == "unsat"}
            # drop duplicates from the list itself so that it does not grow on replays
            self.axioms[:] = self._live_axioms
            self._n_ax = len(self.axioms)
            self._n_nbr = 0 if self._n_nbr > len(self.axioms) else self._n_nbr
            self.sync_axioms()
        return s

    def check(self, pc, extra=None) -> str:
        key = (tuple(p.get_id() for p in pc), extra.get_id() if extra is not None else None)
        hit = self.cache.get(key)
        if hit is not None:
            self.cache_hits += 1
            return hit
        r = self._check(pc, extra)
        self.cache[key] = r
        self._keep.append((list(pc), extra))      # keep the ASTs alive so that ids stay unique
        return r

    def _check(self, pc, extra=None) -> str:
        s = self._base()
        s.push()
        try:
            s.add(pc)
            if extra is not None:
                s.add(extra)
            t0 = time.time()
            r = s.check()
            self.solver_s += time.time() - t0
            self.queries += 1
            return str(r)
        finally:
            s.pop()

    def implied(self, pc, f) -> bool:
        """pc => f ?  (unknown counts as not implied)"""
        if z3.is_true(f):
            return True
        return self.check(pc, z3.Not(f)) == "unsat"

    def feasible(self, pc, f=None) -> bool:
        return self.check(pc, f) != "unsat"

    def model(self, pc, extra=None):
        s = z3.Solver()
        s.set("timeout", 10000)
        s.add(self.axioms)
        s.add(pc)
        if extra is not None:
            s.add(extra)
        self.queries += 1
        if s.check() == z3.sat:
            return s.model()
        return None

def simp(f):
    return z3.simplify(f)


def conj(fs):
    fs = [f for f in fs if not z3.is_true(f)]
    if not fs:
        return TRUE
    if len(fs) == 1:
        return fs[0]
    return z3.And(fs)


def disj(fs):
    fs = [f for f in fs if not z3.is_false(f)]
    if not fs:
        return FALSE
    if len(fs) == 1:
        return fs[0]
    return z3.Or(fs)
