"""Symbolic executor, part 3: calls - inlining, constructors, family contracts, builtins, str/container methods."""
from __future__ import annotations

import ast
import enum
import string

import z3

from .core import CONTRACT_METHODS, CONTRACT_PROPS
from .expr import cat, lit, norm_atoms
from .front import ClassInfo, FuncInfo
from .smt import FALSE, TRUE, conj, disj
from .state import Effect, Frame, MergeAbort, PathEnd, Restart, Unsupported
from .values import (B, CallA, Dyn, Elems, Fn, HObj, I, IteA, IteV, JoinA, K, Lit, MapPart, Obj, OpA, PreSeq,
                     QuoteA, S, Sym, Tu, V)

PURE_LIVE = {"lower", "upper", "strip", "isoformat", "hex", "title"}


class CallMixin:
    # ------------------------------------------------------------------ ast.Call
    def ev_Call(self, e: ast.Call):
        # super() special form
        if isinstance(e.func, ast.Name) and e.func.id == "super" and not e.args:
            fr = self.frames[-1]
            return Fn("super", None, fr.self_val, fr.cls)
        fn = self.eval(e.func)
        args = []
        for a in e.args:
            if isinstance(a, ast.Starred):
                sv = self.eval(a.value)
                parts = self.iter_parts(sv)
                for p in parts:
                    if isinstance(p, Elems):
                        args.extend(p.items)
                    else:
                        args.append(("*", p))
            else:
                args.append(self.eval(a))
        kwargs = {}
        for k in e.keywords:
            if k.arg is None:
                kv = self.eval(k.value)
                if isinstance(kv, Obj) and self.hobj(kv).kind == "dict":
                    for kk, vv in self.hobj(kv).items.items():
                        kwargs[kk] = vv
                    if self.hobj(kv).spec == "kwargs":
                        kwargs["**"] = kv
                else:
                    raise Unsupported("** of non-dict")
            else:
                kwargs[k.arg] = self.eval(k.value)
        return self.call(fn, args, kwargs, e)

    def call(self, fn: V, args: list, kwargs: dict, node=None) -> V:
        if isinstance(fn, IteV):
            fn = fn.a if self.decide(fn.c) else fn.b
        if not isinstance(fn, Fn):
            if isinstance(fn, K) and callable(fn.v):
                return self.call_live(fn.v, args, kwargs)
            if isinstance(fn, (Obj, Sym)):
                # calling an instance: __call__ lookup
                ci = self.cls_of(fn) if isinstance(fn, Obj) else None
                if ci is not None:
                    r = ci.resolve("__call__")
                    if r and r[0] == "func":
                        return self.call_function(r[1], [fn] + args, kwargs, self_val=fn)
                if isinstance(fn, Sym) and not getattr(fn, "tags", None) and ")." in str(getattr(fn, "path", "")):
                    # an attribute of the result of an unmodelled method of opaque data (`default.strip().upper`):
                    # nothing is known about it - outside the subset (undecided), not a definite TypeError
                    raise Unsupported(f"call of a value of unknown kind: {self.ident(fn)}")
                raise PathEnd("raise", ("TypeError", f"'{self.ident(fn)}' object is not callable"))
            raise Unsupported(f"call of {fn!r}")
        k = fn.kind
        if k == "func":
            return self.call_function(fn.target, args, kwargs)
        if k == "bound":
            return self.call_method(fn.target, fn.self_, args, kwargs)
        if k == "classbound":
            return self.call_function(fn.target, [fn.self_] + args, kwargs)
        if k == "class":
            return self.construct(fn.target, args, kwargs)
        if k == "contract":
            return self.contract_call(fn.self_, fn.target, args, kwargs)
        if k == "lambda":
            return self.call_lambda(fn, args, kwargs)
        if k == "builtin":
            return self.call_builtin(fn.target, args, kwargs, fn)
        if k == "live":
            return self.call_live(fn.target, args, kwargs, fn.self_)
        if k == "strmethod":
            return self.str_method(fn.self_, fn.target, args, kwargs)
        if k == "contmethod":
            return self.cont_method(fn.self_, fn.target, args, kwargs, node)
        if k == "dictmethod":
            return self.dictview_method(fn.self_, fn.target, args, kwargs, node)
        if k == "tuplemethod":
            raise Unsupported(f"tuple method {fn.target}")
        if k == "datamethod":
            return self.data_method(fn.self_, fn.target, args, kwargs)
        if k == "closure":
            return self.call_closure(fn, args, kwargs)
        if k == "undecorated":
            fi = fn.target
            return self.call_body(fi, args, kwargs, args[0] if args and fi.kind in ("method", "property") else None)
        if k == "exception":
            return fn
        raise Unsupported(f"call kind {k}")

    # ------------------------------------------------------------------ package functions
    def call_method(self, fi: FuncInfo, recv: V, args, kwargs):
        if fi.name in self.contract_self_methods and self.inline_stack and \
                self.inline_stack[0].name != fi.name and fi not in self.inline_stack[:1]:
            return self.contract_call(recv, fi.name, args, kwargs)
        return self.call_function(fi, [recv] + list(args), kwargs, self_val=recv)

    def call_function(self, fi: FuncInfo, args, kwargs, self_val=None) -> V:
        """execute the body of a package function in place (its summary is its strongest postcondition);
        decorators builder / ignore_copy are interpreted by executing their wrappers from utils.py"""
        if fi.qual == "pypika_tortoise.utils.format_quotes" and fi not in self.no_contract:
            # contract of format_quotes: q ++ str(value) ++ q with q = quote_char or ""
            local = {}
            self.bind_params(fi.node.args, args, kwargs, local, fi)
            return S((QuoteA(self.to_shape(local["value"]).atoms, local["quote_char"]),))
        for dec in reversed([d for d in fi.decorators if d in ("builder", "ignore_copy")]):
            return self.call_decorated(fi, dec, args, kwargs, self_val)
        return self.call_body(fi, args, kwargs, self_val)

    def call_decorated(self, fi, dec, args, kwargs, self_val):
        deco = self.repo.func("utils." + dec)
        # the decorator body defines one inner function and returns it; run that inner function with func bound
        inner = [s for s in deco.node.body if isinstance(s, ast.FunctionDef)]
        if len(inner) != 1 or not isinstance(deco.node.body[-1], ast.Return):
            raise Unsupported(f"shape of decorator {dec}")
        wrapper = inner[0]
        env = {deco.node.args.args[0].arg: Fn("undecorated", fi)}
        for s in deco.node.body:
            if isinstance(s, ast.Import):
                for a in s.names:
                    import importlib
                    env[a.asname or a.name] = K(importlib.import_module(a.name))
        pseudo = FuncInfo(wrapper.name, deco.qual + "." + wrapper.name, wrapper, deco.module, None, [], "function")
        return self.call_body(pseudo, args, kwargs, self_val, closure=env)

    def call_body(self, fi: FuncInfo, args, kwargs, self_val=None, closure=None) -> V:
        if len(self.frames) > self.MAX_DEPTH:
            raise Unsupported("inline depth")
        if fi in self.inline_stack and fi.cls is not None and fi.name in (
                "get_formatted_value", "_recursive_get_sql", "get_sql"):
            # recursion: use the function's own contract (induction hypothesis)
            recv = self_val if self_val is not None else (args[0] if args else None)
            return self.contract_call(recv, fi.name, args[1:] if recv is not None else args, kwargs, rec=fi)
        if fi in self.inline_stack and fi.name == "wrap_constant":
            # data-structure recursion (lists of lists ...): contract of wrap_constant - the result is a Node,
            # either the argument itself or a freshly allocated wrapper
            p = self.fresh_name("wrap_constant")
            tg = self.tags.of_spec("Node")
            self.symspec[p] = "Node"
            return Sym(p, tg)
        if fi in self.inline_stack and fi.name in ("__getattr__", "_getattr"):
            # dynamic attribute lookup through a chain of wrappers (Not(Not(..))): opaque result
            return Sym(self.fresh_name("getattr-chain"), None)
        if self.inline_stack.count(fi) >= 3:
            raise Unsupported(f"recursion in {fi.short}")
        node = fi.node
        if any(isinstance(n, (ast.Yield, ast.YieldFrom)) for n in ast.walk(node)):
            return self.call_generator(fi, args, kwargs, self_val)
        local = dict(closure or {})
        self.bind_params(node.args, args, kwargs, local, fi)
        fr = Frame(fi, fi.cls, local, self_val if fi.kind in ("method", "property") else None, fi.module)
        if fi.kind in ("method", "property") and node.args.args:
            fr.self_val = local.get(node.args.args[0].arg)
        if self.frames and fi.name != "__init__" and fi.qual not in self.nomerge_calls and self.dec is not None:
            r = self.call_merged(fi, fr)
            if r is not None:
                return r
        self.frames.append(fr)
        self.inline_stack.append(fi)
        try:
            return self.run_frame(fr, node.body)
        finally:
            self.inline_stack.pop()
            self.frames.pop()

    def run_frame(self, fr, body):
        """execute a function body in frame fr; early returns merged by merge_if_ret are folded into the result"""
        fr.entry_merge_depth = self.merge_depth
        try:
            self.exec_block(body)
            val = K(None)
        except PathEnd as pe:
            if pe.kind == "return":
                val = pe.value if pe.value is not None else K(None)
            else:
                if fr.pending and pe.kind == "raise":
                    raise Restart({p[3] for p in fr.pending})
                raise
        for rg, rv, eidx, _key in reversed(fr.pending):
            ng = z3.Not(rg)
            for ef in self.st.effects[eidx:]:
                ef.guard = ng if ef.guard is None else z3.And(ng, ef.guard)
            for i in range(len(self.st.pc) - 1, -1, -1):
                if self.st.pc[i] is ng or self.st.pc[i].eq(ng):
                    del self.st.pc[i]
                    break
            val = self.ite_val(rg, rv, val)
        fr.pending = []
        return val

    def call_merged(self, fi, fr0):
        """execute a callee as one mergeable unit: all its return paths are joined into one Ite value, so that
        early returns inside helpers do not fork the caller"""
        base = self.st
        nb, ne, nw = len(base.pc), len(base.effects), len(base.writes)

        def run():
            fr = Frame(fr0.func, fr0.cls, dict(fr0.locals), fr0.self_val, fr0.module)
            self.frames.append(fr)
            self.inline_stack.append(fi)
            return self.run_frame(fr, fi.node.body)

        outs = self.sub_explore(run, base.snapshot(), limit=128)
        if outs is None or not outs or any(o.status not in ("normal", "raise") for o in outs):
            # the decision replay and the memo of nested explorations rely on every path of the outermost
            # exploration executing the same way: restart it with this callee inlined from the beginning
            raise Restart(set(), calls={fi.qual})
        raising = [o for o in outs if o.status == "raise"]
        if raising:
            # exceptional exits: fork the caller on "some raising path is taken", join the rest
            for o in raising:
                g = conj(o.state.pc[nb:])
                if self.decide(g):
                    self.adopt_heap(base, o.state)
                    base.effects.extend(o.state.effects[ne:])
                    base.writes.extend(o.state.writes[nw:])
                    raise PathEnd("raise", o.value)
            outs = [o for o in outs if o.status == "normal"]
            if not outs:
                raise PathEnd("infeasible")
        if len(outs) == 1 and not outs[0].decisions:
            o = outs[0]
            self.adopt_heap(base, o.state)
            base.effects.extend(o.state.effects[ne:])
            base.writes.extend(o.state.writes[nw:])
            return o.value
        v, _l = self.join_outcomes(base, outs, nb, ne, nw)
        return v if v is not None else K(None)

    def bind_params(self, a: ast.arguments, args, kwargs, local, fi=None):
        params = [p.arg for p in a.posonlyargs + a.args]
        defaults = [None] * (len(params) - len(a.defaults)) + list(a.defaults)
        args = list(args)
        kwargs = dict(kwargs)
        star_kw = kwargs.pop("**", None)
        pos = []
        star_tail = None
        for x in args:
            if isinstance(x, tuple) and x and x[0] == "*":
                star_tail = x[1]
                break
            pos.append(x)
        i = 0
        for name, d in zip(params, defaults):
            if i < len(pos):
                local[name] = pos[i]
                i += 1
            elif name in kwargs:
                local[name] = kwargs.pop(name)
            elif star_tail is not None and d is None:
                # positional taken from a symbolic *sequence
                local[name] = self.make_sym(self.fresh_name(f"{star_tail.path}[k]"), star_tail.spec) \
                    if isinstance(star_tail, PreSeq) else Sym(self.fresh_name("stararg"), None)
            elif d is not None:
                local[name] = self.eval_default(d, fi)
            else:
                raise PathEnd("raise", ("TypeError", f"missing argument {name}"))
        rest = pos[i:]
        if a.vararg:
            parts = [Elems(tuple(rest))] if rest else []
            if star_tail is not None:
                parts.append(star_tail)
            local[a.vararg.arg] = Tu(self.norm_parts(parts))
        elif rest or (star_tail is not None and not params):
            raise PathEnd("raise", ("TypeError", "too many positional arguments"))
        for p, d in zip(a.kwonlyargs, a.kw_defaults):
            if p.arg in kwargs:
                local[p.arg] = kwargs.pop(p.arg)
            elif d is not None:
                local[p.arg] = self.eval_default(d, fi)
            else:
                raise PathEnd("raise", ("TypeError", f"missing keyword {p.arg}"))
        if a.kwarg:
            # a purely symbolic **mapping keeps its name, so that reads of its keys denote the same datum in the
            # code and in a specification function evaluated on the same arguments
            o = self.alloc("dict", True, star_kw.path if (star_kw is not None and not kwargs and isinstance(star_kw, Sym))
                           else self.fresh_name("kwargs"))
            h = self.hobj(o)
            h.items.update(kwargs)
            if star_kw is not None:
                h.spec = "kwargs"
                h.attrs["**"] = star_kw
            local[a.kwarg.arg] = o
        elif kwargs:
            raise PathEnd("raise", ("TypeError", f"unexpected keyword {sorted(kwargs)}"))

    def eval_default(self, d: ast.expr, fi):
        fr = Frame(None, fi.cls if fi else None, {}, None, fi.module if fi else self.frames[-1].module)
        self.frames.append(fr)
        try:
            return self.eval(d)
        finally:
            self.frames.pop()

    def call_lambda(self, fn: Fn, args, kwargs):
        node: ast.Lambda = fn.target
        local = dict(fn.extra or {})
        self.bind_params(node.args, args, kwargs, local)
        outer = self.frames[-1]
        fr = Frame(None, outer.cls, local, outer.self_val, outer.module)
        self.frames.append(fr)
        try:
            return self.eval(node.body)
        finally:
            self.frames.pop()

    def call_closure(self, fn: Fn, args, kwargs):
        node, env, fr0 = fn.target, fn.extra, fn.self_
        pseudo = FuncInfo(node.name, "closure." + node.name, node, fr0.module, fr0.cls, [], "function")
        return self.call_body(pseudo, args, kwargs, None, closure=env)

    def call_generator(self, fi, args, kwargs, self_val):
        """generator functions (nodes_) denote the sequence of yielded values"""
        local = {}
        self.bind_params(fi.node.args, args, kwargs, local, fi)
        fr = Frame(fi, fi.cls, local, local.get(fi.node.args.args[0].arg) if fi.node.args.args else None, fi.module)
        fr.locals["$yield"] = self.new_list_parts(())
        self.frames.append(fr)
        self.inline_stack.append(fi)
        try:
            try:
                self.exec_block(fi.node.body)
            except PathEnd as pe:
                if pe.kind != "return":
                    raise
            return Tu(self.hobj(fr.locals["$yield"]).parts)
        finally:
            self.inline_stack.pop()
            self.frames.pop()

    # ------------------------------------------------------------------ constructors
    def construct(self, ci: ClassInfo, args, kwargs):
        live = ci.live
        if issubclass(live, enum.Enum):
            raise Unsupported("enum construction")
        if issubclass(live, BaseException):
            msg = args[0] if args else K("")
            return Fn("exception", ci, msg)
        vw = self.repo.cls("terms.ValueWrapper")
        if vw in ci.mro and (args or "value" in kwargs):
            # C04 param/plain-data: a constant wrapper must wrap plain data, never a query-builder object
            v0 = args[0] if args else kwargs["value"]
            node_tags = self.tags.sub(self.repo.cls("terms.Node"))
            may = False
            if isinstance(v0, Sym):
                ft = self.feasible_tags(v0.path, v0.tags)
                may = ft is None or bool(ft & node_tags)
            elif isinstance(v0, Obj):
                hh = self.hobj(v0)
                may = hh.kind == "inst" and (hh.cls is None or hh.cls.short in node_tags)
            if may:
                fr = self.frames[-1].func.short if self.frames and self.frames[-1].func else "?"
                self.note(f"vw-node:{fr}:{self.ident(v0)}")
        o = self.alloc("inst", True, self.fresh_name(ci.name), cls=ci)
        if getattr(live, "__dataclass_fields__", None):
            fields = list(live.__dataclass_fields__.values())
            import dataclasses
            h = self.hobj(o)
            pos = list(args)
            for f in fields:
                if pos:
                    h.attrs[f.name] = pos.pop(0)
                elif f.name in kwargs:
                    h.attrs[f.name] = kwargs[f.name]
                elif f.default is not dataclasses.MISSING:
                    h.attrs[f.name] = self.lift_live(f.default)
                else:
                    raise PathEnd("raise", ("TypeError", f"missing field {f.name}"))
            return o
        r = ci.resolve("__init__")
        if r and r[0] == "func":
            self.call_function(r[1], [o] + list(args), kwargs, self_val=o)
        return o

    # ------------------------------------------------------------------ contract calls
    def contract_call(self, recv: V, name: str, args, kwargs, prop=False, rec=None) -> V:
        """call through a family contract: the callee body is not looked at"""
        cid = self.new_cid()
        fr = self.frames[-1] if self.frames else None
        site = f"{fr.func.short if fr and fr.func else '?'}"
        ef = Effect("call", cid=cid, method=name, recv=recv, args=tuple(args), kwargs=dict(kwargs), site=site,
                    lineno=0)
        if isinstance(recv, Sym):
            ef.recv_tags = self.feasible_tags(recv.path, recv.tags)
        elif isinstance(recv, Obj):
            hh = self.hobj(recv)
            ef.recv_tags = frozenset({hh.cls.short}) if hh.cls is not None else self.feasible_tags(hh.path, hh.tags)
            ef.kwargs = dict(ef.kwargs)
            ef.site = ef.site + "|" + hh.path
        spec = CONTRACT_METHODS.get(name) or {"pure": True, "ret": CONTRACT_PROPS.get(name, "any")}
        ret = spec["ret"]
        rp = f"call{cid}"
        if ret == "str" or name in ("get_formatted_value", "_recursive_get_sql"):
            res = S((CallA(cid),))
        elif ret == "same":
            tags = recv.tags if isinstance(recv, Sym) else (self.hobj(recv).tags if isinstance(recv, Obj) else None)
            if isinstance(recv, Obj) and self.hobj(recv).cls is not None:
                tags = frozenset({self.hobj(recv).cls.short})
            path = f"{self.ident(recv)}.{name}({','.join(self.ident(a) for a in args)})"
            if tags:
                tags = frozenset(t for t in tags if t != "NoneType")
                self.smt.tag(path, tags)
            self.symspec[path] = "any"
            res = Sym(path, tags)
            # result of replace_table is a new object (contract: fresh, receiver untouched)
            self.__dict__.setdefault("fresh_paths", set()).add(path)
        elif ret.startswith("seq:") or ret.startswith("set:"):
            kind = "set" if ret.startswith("set:") else "list"
            path = f"{self.ident(recv)}.{name}()"
            res = self.alloc(kind, True, path, parts=(PreSeq(path, ret[4:]),), spec=ret[4:])
        elif ret == "name":
            res = Sym(f"{self.ident(recv)}.{name}()", frozenset({"str"}), "name")
        elif ret == "strdata":
            res = Sym(f"{self.ident(recv)}.{name}()", frozenset({"str"}), "value")
        elif ret == "none":
            res = K(None)
        elif ret == "int":
            res = I(self.smt.int(f"{self.ident(recv)}.{name}()"))
        else:
            res = Sym(f"{self.ident(recv)}.{name}", None)
        ef.result = res
        self.st.effects.append(ef)
        self.calls[cid] = ef
        return res

    # ------------------------------------------------------------------ builtins
    def call_builtin(self, name, args, kwargs, fn=None):
        m = getattr(self, "bi_" + name, None)
        if m is None:
            import builtins
            b = getattr(builtins, name, None)
            if isinstance(b, type) and issubclass(b, BaseException):
                return Fn("exception", b, args[0] if args else K(""))
            raise Unsupported(f"builtin {name}")
        return m(args, kwargs) if name != "object_init" else K(None)

    def bi_object_new(self, args, kwargs):
        c = args[0]
        if isinstance(c, Fn) and c.kind == "class":
            return self.alloc("inst", True, self.fresh_name(c.target.name), cls=c.target)
        raise Unsupported("__new__ of unknown class")

    def bi_isinstance(self, args, kwargs):
        v, t = args
        if isinstance(t, Sym):
            return B(self.smt.atom(f"isinstance!{self.ident(v)}|{t.path}"))
        return self.mk_bool(self.isinstance_formula(v, t))

    def bi_sum(self, args, kwargs):
        parts = self.iter_parts(args[0], ordered=False)
        total = z3.IntVal(0)
        for p in parts:
            if isinstance(p, Elems):
                for x in p.items:
                    e = self.int_of(x)
                    if e is None:
                        raise Unsupported("sum of non-int")
                    total = total + e
            else:
                total = total + self.smt.int(f"sum!{self.ident_part(p)}")
        return self.mk_int(total)

    def type_targets(self, t) -> tuple:
        if isinstance(t, Tu):
            out = []
            for p in t.parts:
                for i in p.items:
                    out.extend(self.type_targets(i))
            return tuple(out)
        if isinstance(t, Fn) and t.kind == "class":
            return (t.target,)
        if isinstance(t, Fn) and t.kind == "builtin":
            import builtins
            return (getattr(builtins, t.target),)
        if isinstance(t, K) and isinstance(t.v, type):
            return (t.v,)
        if isinstance(t, K) and isinstance(t.v, tuple):
            return tuple(t.v)
        if isinstance(t, K):
            # abstract base classes of typing / collections.abc: the concrete built-in kinds that are instances
            import collections.abc as _abc
            import typing as _typing
            origin = getattr(t.v, "__origin__", t.v)
            table = {_abc.Sequence: (str, list, tuple), _abc.Iterable: (str, list, tuple, set, dict),
                     _abc.Collection: (str, list, tuple, set, dict), _abc.Mapping: (dict,), _abc.Set: (set,),
                     _abc.MutableSequence: (list,), _abc.Sized: (str, list, tuple, set, dict)}
            if origin in table:
                return table[origin]
        raise Unsupported(f"isinstance against {t!r}")

    def isinstance_formula(self, v, t):
        targets = self.type_targets(t)
        names = self.tags.sub(tuple(targets))
        if isinstance(v, IteV):
            return z3.If(v.c, self.isinstance_formula(v.a, t), self.isinstance_formula(v.b, t))
        if isinstance(v, K):
            live = tuple(x.live if isinstance(x, ClassInfo) else x for x in targets)
            return z3.BoolVal(isinstance(v.v, live))
        if isinstance(v, S):
            return z3.BoolVal("str" in names)
        if isinstance(v, B):
            return z3.BoolVal("bool" in names)
        if isinstance(v, I):
            return z3.BoolVal("int" in names)
        if isinstance(v, Tu):
            return z3.BoolVal("tuple" in names)
        if isinstance(v, Fn):
            if v.kind == "exception":
                return z3.BoolVal(any(isinstance(x, ClassInfo) and x in v.target.mro for x in targets))
            return FALSE
        if isinstance(v, Sym):
            if v.tags is not None and v.tags <= names:
                return TRUE
            return self.smt.tag_in(v.path, names, v.tags)
        if isinstance(v, Obj):
            h = self.hobj(v)
            if h.kind != "inst":
                return z3.BoolVal(h.kind in names)
            if h.cls is not None:
                return z3.BoolVal(h.cls.short in names)
            if h.tags is not None and h.tags <= names:
                return TRUE
            return self.smt.tag_in(h.path, names, h.tags)
        raise Unsupported(f"isinstance of {v!r}")

    def bi_issubclass(self, args, kwargs):
        a, b = args
        if isinstance(a, Fn) and a.kind == "class":
            tg = self.type_targets(b)
            return K(any((x in a.target.mro) if isinstance(x, ClassInfo) else issubclass(a.target.live, x)
                         for x in tg))
        if isinstance(a, K) and isinstance(a.v, type):
            tg = tuple(x.live if isinstance(x, ClassInfo) else x for x in self.type_targets(b))
            return K(issubclass(a.v, tg))
        return B(self.smt.atom(f"issubclass!{self.ident(a)}|{self.ident(b)}"))

    def bi_len(self, args, kwargs):
        (v,) = args
        if isinstance(v, S):
            try:
                return K(len(self.const_of(v)))
            except KeyError:
                return I(self.shape_len(v))
        if isinstance(v, K):
            return K(len(v.v))
        if isinstance(v, Sym) and v.tags == frozenset({"str"}):
            return I(self.smt.int("slen!" + v.path, nonneg=True))
        if isinstance(v, Obj) and self.hobj(v).kind == "dict":
            return K(len(self.hobj(v).items))
        if isinstance(v, Sym):
            ft = self.feasible_tags(v.path, v.tags)
            if ft and not (ft & {"list", "set", "tuple", "dict", "str"}):
                raise PathEnd("raise", ("TypeError", f"len() of {v.path}"))
        if isinstance(v, Obj) and self.hobj(v).kind == "inst":
            raise PathEnd("raise", ("TypeError", f"len() of {self.hobj(v).path}"))
        if isinstance(v, Obj) and self.hobj(v).kind == "set" and "__dedup__" in self.hobj(v).attrs:
            # a set built from a sequence may be shorter than the sequence (duplicates collapse)
            h = self.hobj(v)
            full = self.parts_len(h.parts)
            n = self.smt.int("len!dedup!" + h.path, nonneg=True)
            self.assume(z3.And(n <= full, z3.Implies(full > 0, n > 0)))
            return self.mk_int(n)
        return self.mk_int(self.parts_len(self.iter_parts(v, ordered=False)))

    def shape_len(self, s: S):
        """length of a shape as a z3 integer term (one non-negative unknown per dynamic atom)"""
        total = z3.IntVal(0)
        for a in s.atoms:
            if isinstance(a, Lit):
                total = total + len(a.s)
            elif isinstance(a, Dyn) and isinstance(a.v, Sym):
                total = total + self.smt.int("slen!" + a.v.path, nonneg=True)
            elif isinstance(a, IteA):
                total = total + z3.If(a.c, self.shape_len(S(a.a)), self.shape_len(S(a.b)))
            elif isinstance(a, QuoteA):
                q = a.q
                ql = self.shape_len(self.to_shape(q)) if isinstance(q, (S, Sym, K)) and not (
                    isinstance(q, K) and q.v is None) else self.smt.int("slen!" + repr(q), nonneg=True)
                total = total + self.shape_len(S(a.inner)) + 2 * ql
            elif isinstance(a, CallA):
                total = total + self.smt.int(f"slen!call{a.cid}", nonneg=True)
            elif isinstance(a, JoinA):
                total = total + self.smt.int(f"slen!join{a.lid}", nonneg=True)
            else:
                total = total + self.smt.int("slen!" + repr(a)[:200], nonneg=True)
        return z3.simplify(total)

    def bi_bool(self, args, kwargs):
        return self.mk_bool(self.truth(args[0])) if args else K(False)

    def bi_str(self, args, kwargs):
        return self.to_shape(args[0]) if args else lit("")

    def bi_repr(self, args, kwargs):
        return S((Dyn(args[0], "repr"),))

    def bi_int(self, args, kwargs):
        (v,) = args
        if isinstance(v, K):
            try:
                return K(int(v.v))
            except ValueError:
                raise PathEnd("raise", ("ValueError", "int()"))
        if isinstance(v, I):
            return v
        if isinstance(v, S):
            try:
                return K(int(self.const_of(v)))
            except KeyError:
                pass
            except ValueError:
                raise PathEnd("raise", ("ValueError", "int()"))
        ok = self.smt.atom(f"intok!{self.ident(v)}")
        if not self.decide(ok):
            raise PathEnd("raise", ("ValueError", "int()"))
        return I(self.smt.int(f"int!{self.ident(v)}"))

    def bi_float(self, args, kwargs):
        (v,) = args
        if isinstance(v, K):
            return K(float(v.v))
        return Sym(f"float({self.ident(v)})", frozenset({"float"}), "derived")

    def bi_id(self, args, kwargs):
        # identity of an object: an uninterpreted integer per object
        return I(self.smt.int(f"id!{self.ident(args[0])}"))

    def bi_format(self, args, kwargs):
        # format(value, spec): uninterpreted pure string function of the value (a DERIVED datum: it is not str(value))
        v = args[0]
        spec = self.ident(args[1]) if len(args) > 1 else ""
        if isinstance(v, K) and len(args) > 1 and isinstance(args[1], (K, S)):
            try:
                return lit(format(v.v, self.const_of(args[1]) if isinstance(args[1], S) else args[1].v))
            except Exception:
                pass
        return S((Dyn(Sym(f"format({self.ident(v)},{spec})", frozenset({"str"}), "derived"), "raw"),))

    def bi_round(self, args, kwargs):
        v = args[0]
        if all(isinstance(a, K) for a in args):
            return K(round(*[a.v for a in args]))
        return Sym(f"round({','.join(self.ident(a) for a in args)})", frozenset({"float", "int"}), "derived")

    def bi_next(self, args, kwargs):
        it = args[0]
        parts = self.iter_parts(it)
        default = args[1] if len(args) > 1 else None
        if not parts:
            if default is None:
                raise PathEnd("raise", ("StopIteration", K("")))
            return default
        p = parts[0]
        if isinstance(p, Elems) and p.items:
            return p.items[0]
        # first element of a symbolic / filtered sequence: exists or not
        nonempty = self.parts_nonempty(tuple(parts))
        if self.decide(nonempty):
            if isinstance(p, PreSeq):
                return self.make_sym(f"{p.path}[0]", p.spec)
            if isinstance(p, MapPart):
                alts = [a for a in p.alts if a[1]]
                if len(alts) == 1 and len(alts[0][1]) == 1 and len(parts) == 1:
                    # [f(x) for x in seq if g(x)]: the image of the first element that passes the filter
                    return Sym(self.fresh_name(f"first(map{p.lid})"), None)
            return Sym(self.fresh_name("next"), None)
        if default is None:
            raise PathEnd("raise", ("StopIteration", K("")))
        return default

    def bi_abs(self, args, kwargs):
        (v,) = args
        if isinstance(v, K):
            return K(abs(v.v))
        e = self.int_of(v)
        if e is not None:
            return I(z3.If(e >= 0, e, -e))
        raise Unsupported("abs")

    def bi_max(self, args, kwargs):
        args = [(a.a if self.decide(a.c) else a.b) if isinstance(a, IteV) else a for a in args]
        es = [self.int_of(a) for a in args]
        if all(e is not None for e in es) and len(es) == 2:
            return self.mk_int(z3.If(es[0] >= es[1], es[0], es[1]))
        raise Unsupported("max")

    def bi_hash(self, args, kwargs):
        (v,) = args
        if isinstance(v, (Obj, Sym)) and not (isinstance(v, Sym) and v.tags and not any(
                ("pypika_tortoise." + t) in self.repo.classes for t in v.tags)):
            ci = self.cls_of(v) if isinstance(v, Obj) else None
            if ci is not None:
                r = ci.resolve("__hash__")
                if r and r[0] == "func":
                    return self.call_function(r[1], [v], {}, self_val=v)
            return self.contract_call(v, "__hash__", (), {})
        return I(self.smt.int(f"hash!{self.ident(v)}"))

    def bi_getattr(self, args, kwargs):
        obj, name = args[0], self.const_of(args[1])
        default = args[2] if len(args) > 2 else None
        r = self.get_attr(obj, name, default=default)
        if name == "immutable" and getattr(self, "pre_immutable", False):
            # precondition of the builder contract (C01): the receiver is in the default immutable mode
            self.assume(self.truth(r))
        return r

    def bi_hasattr(self, args, kwargs):
        obj, name = args[0], self.const_of(args[1])
        if isinstance(obj, (S, Tu, B, I)):
            return K(hasattr({S: "", Tu: (), B: True, I: 0}[type(obj)], name))
        if isinstance(obj, Sym) and not (obj.tags and any(("pypika_tortoise." + t) in self.repo.classes
                                                          for t in obj.tags)):
            if obj.tags is not None and obj.tags and obj.tags <= set(self.tags.live) - {"other"}:
                kinds = {hasattr(self.tags.live[t], name) for t in obj.tags}
                if len(kinds) == 1:
                    return K(kinds.pop())
            return B(self.smt.atom(f"hasattr!{obj.path}.{name}"))
        snap_eff = len(self.st.effects)
        try:
            r = self.get_attr(obj, name, probe=True)
        except PathEnd as pe:
            if pe.kind == "raise" and pe.value and pe.value[0] == "AttributeError":
                return K(False)
            raise
        return K(r is not None)

    def bi_setattr(self, args, kwargs):
        obj, name, val = args
        self.set_attr(obj, self.const_of(name), val)
        return K(None)

    def bi_type(self, args, kwargs):
        (v,) = args
        ci = self.cls_of(v) if isinstance(v, (Obj, K)) else None
        if ci is not None:
            return Fn("class", ci)
        if isinstance(v, K):
            return K(type(v.v))
        if isinstance(v, S):
            return K(str)
        return Sym(f"type({self.ident(v)})", None)

    def bi_any(self, args, kwargs):
        return self.mk_bool(self.quant(args[0], any_=True))

    def bi_all(self, args, kwargs):
        return self.mk_bool(self.quant(args[0], any_=False))

    def quant(self, seq, any_):
        parts = self.iter_parts(seq, ordered=False)
        fs = []
        for p in parts:
            if isinstance(p, Elems):
                fs.extend(self.truth(x) for x in p.items)
            elif isinstance(p, MapPart):
                # exists/forall over a symbolic sequence: an atom per alternative
                sub = []
                for g, items in p.alts:
                    t = conj([g] + [self.truth(i) for i in items]) if any_ else z3.Implies(g, conj(
                        [self.truth(i) for i in items]))
                    sub.append(t)
                body = disj(sub) if any_ else conj(sub)
                key = f"{'ex' if any_ else 'all'}!map{p.lid}"
                a = self.smt.atom(key)
                # link: empty sequence => exists false / forall true
                ln = self.parts_len(p.seq)
                self.smt.axioms.append(z3.Implies(ln == 0, z3.Not(a) if any_ else a))
                self.__dict__.setdefault("quant_bodies", {})[key] = (p, body)
                fs.append(a)
            else:
                fs.append(self.smt.atom(f"{'ex' if any_ else 'all'}!truthy({p.path})"))
        return disj(fs) if any_ else conj(fs)

    def bi_list(self, args, kwargs):
        return self.new_list_parts(self.iter_parts(args[0]) if args else ())

    def bi_tuple(self, args, kwargs):
        return Tu(self.iter_parts(args[0]) if args else ())

    def bi_set(self, args, kwargs):
        o = self.new_list_parts(self.iter_parts(args[0], ordered=False) if args else (), kind="set")
        if args:
            src = args[0]
            from_set = isinstance(src, Obj) and self.hobj(src).kind == "set"
            parts = self.hobj(o).parts
            symbolic = any(not isinstance(p, Elems) for p in parts) or sum(len(p.items) for p in parts
                                                                            if isinstance(p, Elems)) > 1
            if not from_set and symbolic:
                self.hobj(o).attrs["__dedup__"] = K(True)     # duplicates of the source collapse
        return o

    def bi_sorted(self, args, kwargs):
        parts = self.iter_parts(args[0], ordered=False)
        try:
            items = sorted(self.const_of(i) for p in parts for i in p.items) if all(
                isinstance(p, Elems) for p in parts) else None
        except (KeyError, TypeError):
            items = None
        if items is not None:
            return self.new_list([self.from_py(i) for i in items])
        if len(parts) == 1 and isinstance(parts[0], PreSeq):
            p = parts[0]
            return self.new_list_parts((PreSeq(f"sorted({p.path})", p.spec),))
        raise Unsupported("sorted of mixed sequence")

    def bi_enumerate(self, args, kwargs):
        from .values import EnumPart
        parts = self.iter_parts(args[0])
        start = args[1].v if len(args) > 1 and isinstance(args[1], K) else (kwargs.get("start").v if isinstance(kwargs.get("start"), K) else 0)
        out, i = [], start
        for p in parts:
            if isinstance(p, Elems):
                out.append(Elems(tuple(Tu((Elems((K(i + k), it)),)) for k, it in enumerate(p.items))))
                i += len(p.items)
            else:
                out.append(EnumPart(p))
        return Tu(tuple(out))

    def bi_zip(self, args, kwargs):
        cols = []
        for a in args:
            parts = self.iter_parts(a)
            if not all(isinstance(p, Elems) for p in parts):
                raise Unsupported("zip of symbolic sequence")
            cols.append([i for p in parts for i in p.items])
        n = min(len(c) for c in cols) if cols else 0
        return Tu((Elems(tuple(Tu((Elems(tuple(c[i] for c in cols)),)) for i in range(n))),) if n else ())

    def bi_map(self, args, kwargs):
        f, seq = args
        parts = self.iter_parts(seq)
        out = []
        for p in parts:
            if isinstance(p, Elems):
                out.append(Elems(tuple(self.call(f, [x], {}) for x in p.items)))
            else:
                if isinstance(f, Fn) and f.kind == "builtin" and f.target == "str":
                    lid = self.new_lid()
                    elem, lid = self.elem_of(p)
                    out.append(MapPart((p,), elem, ((TRUE, (self.to_shape(elem),)),), lid, False, True))
                else:
                    # map(f, seq) over a symbolic sequence is the generator (f(x) for x in seq)
                    fr = self.frames[-1]
                    k = self.new_lid()
                    fn_name, seq_name, x_name = f"__mapf{k}", f"__mapseq{k}", f"__mapx{k}"
                    fr.locals[fn_name] = f
                    fr.locals[seq_name] = Tu((p,))
                    gen = ast.GeneratorExp(
                        elt=ast.Call(func=ast.Name(id=fn_name, ctx=ast.Load()),
                                     args=[ast.Name(id=x_name, ctx=ast.Load())], keywords=[]),
                        generators=[ast.comprehension(target=ast.Name(id=x_name, ctx=ast.Store()),
                                                      iter=ast.Name(id=seq_name, ctx=ast.Load()), ifs=[], is_async=0)])
                    ast.fix_missing_locations(gen)
                    res = self.comprehension(gen, "gen")
                    out.extend(self.iter_parts(res))
        return Tu(self.norm_parts(out))

    def bi_cast(self, args, kwargs):
        return args[1]

    def bi_print(self, args, kwargs):
        return K(None)

    def bi_slice(self, args, kwargs):
        raise Unsupported("slice()")

    def bi_divmod(self, args, kwargs):
        a, b = args
        ea, eb = self.int_of(a), self.int_of(b)
        if ea is None or eb is None:
            raise Unsupported("divmod")
        return Tu((Elems((self.mk_int(ea / eb), self.mk_int(ea % eb))),))

    # external (non-package) callables
    def call_live(self, f, args, kwargs, self_=None):
        import copy as _copy
        import functools
        import inspect
        import itertools
        import json
        import typing
        name = getattr(f, "__name__", "")
        if f is _copy.copy:
            return self.copy_copy(args[0])
        if f is typing.cast:
            return args[1]
        if f is functools.reduce:
            return self.do_reduce(args)
        if f is inspect.ismethod:
            v = args[0]
            if isinstance(v, Fn):
                return K(v.kind in ("bound", "contract", "classbound"))
            if isinstance(v, Sym):
                return B(self.smt.atom(f"ismethod!{v.path}"))
            return K(False)
        if f is json.dumps:
            return S((OpA("json.dumps", (args[0],)),))
        if f is itertools.chain.from_iterable or getattr(f, "__qualname__", "") == "chain.from_iterable":
            outer = self.iter_parts(args[0])
            out = []
            for p in outer:
                if isinstance(p, Elems):
                    for x in p.items:
                        out.extend(self.iter_parts(x))
                else:
                    out.append(PreSeq(f"chain({self.ident_part(p)})", "any"))
            return Tu(self.norm_parts(out))
        if isinstance(f, type) and issubclass(f, BaseException):
            return Fn("exception", f, args[0] if args else K(""))
        # concrete call when everything is concrete
        try:
            cargs = [self.const_of(a) for a in args]
            ckw = {k: self.const_of(v) for k, v in kwargs.items()}
            if self_ is not None and isinstance(self_, K):
                return self.from_py(f(*cargs, **ckw))
            if self_ is None:
                return self.from_py(f(*cargs, **ckw))
        except KeyError:
            pass
        except Exception as ex:
            raise PathEnd("raise", (type(ex).__name__, str(ex)))
        if self_ is not None and isinstance(self_, K):
            import re as _re
            if isinstance(self_.v, _re.Pattern) and name == "sub":
                return S((OpA("re.sub", (self_, args[0], args[1])),))
            if isinstance(self_.v, dict) and name == "get":
                return self.dict_get_concrete(self_.v, args)
            if isinstance(self_.v, str) and name == "format":
                return self.str_method(lit(self_.v), "format", args, kwargs)
            if isinstance(self_.v, str) and name == "join":
                return self.str_method(lit(self_.v), "join", args, kwargs)
        raise Unsupported(f"external call {getattr(f, '__qualname__', f)}")

    def ident_part(self, p):
        return p.path if isinstance(p, PreSeq) else f"map{p.lid}"

    def dict_get_concrete(self, d: dict, args):
        key = args[0]
        default = args[1] if len(args) > 1 else K(None)
        try:
            ck = self.const_of(key)
            return self.from_py(d[ck]) if ck in d else default
        except KeyError:
            pass
        for k, v in d.items():
            if self.decide(self.truth(self.compare(ast.Eq(), key, self.from_py(k)))):
                return self.from_py(v)
        return default

    def do_reduce(self, args):
        f, seq = args[0], args[1]
        parts = self.iter_parts(seq)
        if not all(isinstance(p, Elems) for p in parts):
            if len(args) > 2:
                return Sym(self.fresh_name("reduce"), None)
            raise Unsupported("reduce over symbolic sequence")
        items = [i for p in parts for i in p.items]
        if len(args) > 2:
            acc = args[2]
        else:
            acc, items = items[0], items[1:]
        for it in items:
            acc = self.call(f, [acc, it], {})
        return acc

    def copy_copy(self, v: V) -> V:
        """copy.copy: __copy__ if the class defines it, else cls.__new__ + shallow __dict__ copy (axiom S4)"""
        if isinstance(v, IteV):
            v = v.a if self.decide(v.c) else v.b
        if isinstance(v, Sym):
            if v.tags and not any(("pypika_tortoise." + t) in self.repo.classes for t in v.tags) and not (
                    v.tags <= {"list", "set"}):
                return v
            v = self.as_obj(v)
        if isinstance(v, (K, S, B, I, Tu)):
            return v
        if isinstance(v, Obj):
            h = self.hobj(v)
            if h.kind in ("list", "set"):
                return self.alloc(h.kind, True, self.fresh_name("copy(" + h.path + ")"), parts=h.parts, spec=h.spec)
            if h.kind == "dict":
                o = self.alloc("dict", True, self.fresh_name("copy"))
                self.hobj(o).items.update(h.items)
                return o
            ci = self.cls_of(v)
            if ci is None:
                # several possible classes: all must agree on __copy__
                cands = {(c.resolve("__copy__") or (None, None))[1] for c in self.possible_classes(h)}
                if len(cands) != 1:
                    raise Unsupported("copy.copy of object with several possible __copy__")
                cp = cands.pop()
            else:
                r = ci.resolve("__copy__")
                cp = r[1] if r and r[0] == "func" else None
            if cp is not None:
                return self.call_function(cp, [v], {}, self_val=v)
            return self.alloc("inst", True, self.fresh_name("copy(" + h.path + ")"), cls=h.cls, tags=h.tags,
                              parent=h.oid)
        raise Unsupported(f"copy of {v!r}")

    # ------------------------------------------------------------------ str methods
    def str_method(self, s: S, name, args, kwargs):
        if name == "format":
            return self.str_format(s, args, kwargs)
        if name == "join":
            return self.str_join(s, args[0])
        if name in ("lower", "upper", "strip"):
            try:
                return lit(getattr(self.const_of(s), name)())
            except KeyError:
                return S((OpA(name, (s,)),))
        if name == "replace":
            try:
                return lit(self.const_of(s).replace(self.const_of(args[0]), self.const_of(args[1])))
            except KeyError:
                return S((OpA("replace", (s, args[0], args[1])),))
        if name in ("startswith", "endswith"):
            try:
                return K(getattr(self.const_of(s), name)(self.const_of(args[0])))
            except KeyError:
                return B(self.smt.atom(f"{name}!{self.ident(s)}|{self.ident(args[0])}"))
        raise Unsupported(f"str.{name}")

    def data_method(self, v: Sym, name, args, kwargs):
        """method of opaque user data (str values etc.)"""
        if name in CONTRACT_METHODS and name not in ("isoformat",):
            return self.contract_call(v, name, args, kwargs)
        if name == "replace" and len(args) == 2 and (v.tags == frozenset({"str"}) or v.label in ("value", "name")):
            return S((OpA("replace", (self.to_shape(v), args[0], args[1])),))
        if name in ("lower", "upper") or (name in ("strip", "lstrip", "rstrip") and not args and
                                          (v.tags == frozenset({"str"}) or v.label in ("value", "name"))):
            return S((OpA(name, (self.to_shape(v),)),))
        if name in ("split", "rsplit", "splitlines", "partition", "rpartition"):
            # pieces of a string: opaque derived data (not the datum itself)
            pr = (PreSeq(f"{v.path}.{name}({','.join(self.ident(a) for a in args)})", "any"),)
            return self.new_list_parts(pr) if name in ("split", "rsplit", "splitlines") else Tu(pr)
        if name == "isoformat":
            return Sym(f"{v.path}.isoformat()", frozenset({"str"}), v.label)
        if name == "format" and v.tags == frozenset({"str"}):
            raise Unsupported("format on symbolic template")
        if name == "items":
            return Tu((PreSeq(f"{v.path}.items()", "tuple[value,value]"),))
        if name == "replace":
            # e.g. time.replace(tzinfo=None): opaque pure result of the same kind
            return Sym(f"{v.path}.replace({','.join(sorted(kwargs))})", v.tags, v.label)
        if name == "get":
            return Sym(f"{v.path}.get({self.ident(args[0])})", None, v.label)
        self.note(f"opaque-data-method:{name}")
        return Sym(f"{v.path}.{name}()", None, v.label)

    def str_format(self, tmpl: S, args, kwargs) -> S:
        # the template may be an Ite of two constant templates
        if len(tmpl.atoms) == 1 and isinstance(tmpl.atoms[0], IteA):
            a = tmpl.atoms[0]
            return S((IteA(a.c, self.str_format(S(a.a), args, kwargs).atoms,
                           self.str_format(S(a.b), args, kwargs).atoms),))
        try:
            t = self.const_of(tmpl)
        except KeyError:
            # a format template that contains data: the datum is parsed as replacement-field syntax
            fr = self.frames[-1].func.short if self.frames and self.frames[-1].func else "?"
            self.note(f"dyn-template:{fr}:{tmpl!r}"[:300])
            return S((OpA("format", (tmpl,) + tuple(a for a in args if isinstance(a, S))),))
        out = []
        auto = 0
        for literal, field, spec, conv in string.Formatter().parse(t):
            if literal:
                out.append(lit(literal))
            if field is None:
                continue
            if spec or conv:
                raise Unsupported("format spec")
            if field == "":
                val = args[auto]
                auto += 1
            elif field.isdigit():
                val = args[int(field)]
            else:
                if field not in kwargs:
                    raise PathEnd("raise", ("KeyError", field))
                val = kwargs[field]
            out.append(self.to_shape(val))
        return cat(*out)

    def str_join(self, sep: S, seq: V) -> S:
        parts = self.iter_parts(seq)
        pieces = []      # list of (shape, is_symbolic_part)
        out = []
        first = True
        items = []
        for p in parts:
            if isinstance(p, Elems):
                for x in p.items:
                    items.append(("one", self.to_shape(x)))
            elif isinstance(p, MapPart):
                body = None
                alts = []
                for g, its in p.alts:
                    shs = []
                    for i in its:
                        if isinstance(i, (MapPart, PreSeq)):
                            shs.append(self.str_join(sep, Tu((i,))))
                        else:
                            shs.append(self.to_shape(i))
                    alts.append((g, cat(*shs) if shs else lit("")))
                items.append(("many", JoinA(sep.atoms, p.seq, self.alts_shape(alts).atoms, p.lid)))
            elif isinstance(p, PreSeq):
                elem, lid = self.elem_of(p)
                items.append(("many", JoinA(sep.atoms, (p,), self.to_shape(elem).atoms, lid)))
        if not items:
            return lit("")
        if len(items) == 1 and items[0][0] == "many":
            return S((items[0][1],))
        if all(k == "one" for k, _ in items):
            res = []
            for i, (_, sh) in enumerate(items):
                if i:
                    res.append(sep)
                res.append(sh)
            return cat(*res)
        # mixture of concrete items and symbolic parts: separators between possibly-empty parts are conditional
        res = []
        for i, (k, sh) in enumerate(items):
            if i:
                res.append(S((OpA("sep?", (sep,)),)))
            res.append(sh if k == "one" else S((sh,)))
        return cat(*res)

    def alts_shape(self, alts) -> S:
        """shape of one element's text given guarded alternatives (guards partition the element space)"""
        if not alts:
            return lit("")
        cur = alts[-1][1]
        for g, sh in reversed(alts[:-1]):
            cur = S((IteA(g, sh.atoms, cur.atoms),))
        return cur

    # ------------------------------------------------------------------ container methods
    def cont_method(self, o: Obj, name, args, kwargs, node=None):
        h = self.hobj(o)
        lineno = getattr(node, "lineno", 0)
        if h.kind == "dict":
            if name == "get":
                key = args[0]
                default = args[1] if len(args) > 1 else K(None)
                try:
                    ck = self.dict_key(key)
                    if ck in h.items:
                        return h.items[ck]
                    if h.spec == "kwargs" and "**" in h.attrs:
                        return Sym(f"{self.ident(h.attrs['**'])}[{ck!r}]", None)
                    return default
                except Unsupported:
                    pass
                for k, v in h.items.items():
                    if self.decide(self.truth(self.compare(ast.Eq(), key, self.from_py(k)))):
                        return v
                return default
            if name == "items":
                return Tu((Elems(tuple(Tu((Elems((self.from_py(k), v)),)) for k, v in h.items.items())),)
                          if h.items else ())
            if name == "update":
                self.check_merge_write(o)
                self.log_write(o, "update", "", None, lineno)
                src = args[0]
                if isinstance(src, Obj) and self.hobj(src).kind == "dict":
                    h.items.update(self.hobj(src).items)
                    return K(None)
                raise Unsupported("dict.update source")
            if name == "keys":
                return Tu((Elems(tuple(self.from_py(k) for k in h.items)),) if h.items else ())
            if name == "values":
                return Tu((Elems(tuple(h.items.values())),) if h.items else ())
            raise Unsupported(f"dict.{name}")
        mutators = {"append", "extend", "insert", "add", "remove", "discard", "pop", "clear", "update", "sort",
                    "reverse"}
        if name in mutators:
            self.check_merge_write(o)
            self.log_write(o, name, "", args[0] if args else None, lineno)
            if name in ("append", "add"):
                h.parts = self.norm_parts(h.parts + (Elems((args[0],)),))
            elif name in ("extend", "update"):
                h.parts = self.norm_parts(h.parts + tuple(self.iter_parts(args[0])))
            elif name in ("remove", "discard", "pop", "clear", "insert", "sort", "reverse"):
                lid = self.new_lid()
                h.parts = (PreSeq(f"{h.path}.{name}#{lid}", h.spec or "any"),) if name != "clear" else ()
                if name == "pop":
                    return Sym(self.fresh_name(f"{h.path}.pop"), None)
            return K(None)
        if name == "copy":
            return self.copy_copy(o)
        if name == "union" and h.kind == "set":
            parts = list(self.iter_parts(o, False))
            for a in args:
                parts += list(self.iter_parts(a, False))
            return self.new_list_parts(self.norm_parts(tuple(parts)), kind="set")
        if name == "difference" and h.kind == "set" and len(args) == 1:
            lid = self.new_lid()
            return self.alloc("set", True, self.fresh_name("setdiff"),
                              parts=(PreSeq(f"setdiff{lid}({self.ident(o)},{self.ident(args[0])})", "any"),))
        if name in ("intersection", "symmetric_difference", "issubset", "issuperset", "isdisjoint") and h.kind == "set":
            lid = self.new_lid()
            nm = f"set{name}{lid}({self.ident(o)},{','.join(self.ident(a) for a in args)})"
            if name.startswith("is"):
                return B(self.smt.atom(nm))
            return self.alloc("set", True, self.fresh_name("set" + name), parts=(PreSeq(nm, "any"),))
        if name == "index" or name == "count":
            return I(self.smt.int(self.fresh_name(f"{h.path}.{name}"), nonneg=True))
        raise Unsupported(f"{h.kind}.{name}")

    def dictview_method(self, inst: V, name, args, kwargs, node=None):
        """obj.__dict__.update(other.__dict__) - the only use in the package"""
        if name == "update":
            src = args[0]
            if isinstance(src, Fn) and src.kind == "dictview":
                self.check_merge_write(inst)
                tgt = self.as_obj(inst) if isinstance(inst, Sym) else inst
                srco = self.as_obj(src.self_) if isinstance(src.self_, Sym) else src.self_
                self.log_write(tgt, "dict-update", "__dict__", None, getattr(node, "lineno", 0))
                ht, hs = self.hobj(tgt), self.hobj(srco)
                if ht.attrs or ht.parent is not None:
                    raise Unsupported("__dict__.update on a non-empty object")
                ht.parent = hs.oid
                return K(None)
        raise Unsupported(f"__dict__.{name}")
