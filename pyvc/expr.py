"""Symbolic executor, part 2: expression evaluation."""
from __future__ import annotations

import ast
import enum

import z3

from .front import ClassInfo, FuncInfo
from .smt import FALSE, TRUE, conj, disj
from .state import Effect, Frame, MergeAbort, PathEnd, Unsupported
from .values import (B, CallA, Dyn, Elems, Fn, Gen, HObj, I, IteA, IteV, JoinA, K, Lit, MapPart, Obj, OpA, PreSeq,
                     QuoteA, S, Sym, Tu, V)


def lit(s: str) -> S:
    return S((Lit(s),)) if s else S(())


def norm_atoms(atoms) -> tuple:
    out = []
    for a in atoms:
        if isinstance(a, Lit):
            if not a.s:
                continue
            if out and isinstance(out[-1], Lit):
                out[-1] = Lit(out[-1].s + a.s)
                continue
        out.append(a)
    return tuple(out)


def cat(*shapes: S) -> S:
    atoms = []
    for s in shapes:
        atoms.extend(s.atoms)
    return S(norm_atoms(atoms))


def ite_shape(c, a: S, b: S) -> S:
    """Ite on shapes with the common prefix and suffix factored out (keeps merged accumulators linear in size)"""
    x, y = a.atoms, b.atoms
    i = 0
    while i < len(x) and i < len(y) and (x[i] is y[i] or x[i] == y[i]):
        i += 1
    j = 0
    while j < len(x) - i and j < len(y) - i and (x[len(x) - 1 - j] is y[len(y) - 1 - j] or
                                                   x[len(x) - 1 - j] == y[len(y) - 1 - j]):
        j += 1
    pre, suf = x[:i], x[len(x) - j:] if j else ()
    ma, mb = x[i:len(x) - j], y[i:len(y) - j]
    if not ma and not mb:
        return S(pre + suf)
    return S(norm_atoms(pre + (IteA(c, ma, mb),) + suf))


class ExprMixin:
    # ------------------------------------------------------------------ truthiness / conversions
    def truth(self, v: V):
        """z3 formula for bool(v)"""
        if isinstance(v, K):
            try:
                return z3.BoolVal(bool(v.v))
            except Exception:
                return TRUE
        if isinstance(v, B):
            return v.f
        if isinstance(v, I):
            return v.e != 0
        if isinstance(v, IteV):
            return z3.If(v.c, self.truth(v.a), self.truth(v.b))
        if isinstance(v, Fn):
            return TRUE
        if isinstance(v, S):
            return self.shape_nonempty(v)
        if isinstance(v, Tu):
            return self.parts_nonempty(v.parts)
        if isinstance(v, Sym):
            return self.smt.truthy(v.path, v.tags)
        if isinstance(v, Obj):
            h = self.hobj(v)
            if h.kind in ("list", "set"):
                return self.parts_nonempty(h.parts)
            if h.kind == "dict":
                return z3.BoolVal(bool(h.items))
            ci = self.cls_of(v)
            if ci is not None and ci.short in self.tags.always_true:
                return TRUE
            if h.tags and all(t in self.tags.always_true for t in h.tags):
                return TRUE
            return self.smt.truthy(h.path, h.tags)
        raise Unsupported(f"truth of {v!r}")

    def parts_len(self, parts):
        total = z3.IntVal(0)
        for p in parts:
            if isinstance(p, Elems):
                total = total + len(p.items)
            elif isinstance(p, PreSeq):
                total = total + self.smt.int("len!" + p.path, nonneg=True)
            elif type(p).__name__ == "EnumPart":
                total = total + self.parts_len((p.inner,))
            elif isinstance(p, MapPart):
                if p.total and not p.once and p.alts and all(len(items) == 1 for _g, items in p.alts):
                    # one item per element of the iterated sequence: same length
                    total = total + self.parts_len(p.seq)
                else:
                    total = total + self.smt.int(f"len!map{p.lid}", nonneg=True)
            else:
                raise Unsupported("len of part")
        return z3.simplify(total)

    def parts_nonempty(self, parts):
        return z3.simplify(self.parts_len(parts) > 0)

    def shape_nonempty(self, s: S):
        return z3.simplify(self.shape_len(s) > 0)

    def to_shape(self, v: V, fmt="str") -> S:
        """str(v) / format(v) as a shape"""
        if isinstance(v, S):
            return v
        if isinstance(v, K):
            if isinstance(v.v, (str, int, float, bool, type(None), enum.Enum)) or v.v is None:
                return lit(str(v.v) if not isinstance(v.v, str) else v.v)
            return S((Dyn(v, "str"),))
        if isinstance(v, IteV):
            a, b = self.to_shape(v.a), self.to_shape(v.b)
            return S((IteA(v.c, a.atoms, b.atoms),))
        if isinstance(v, B):
            return S((IteA(v.f, (Lit("True"),), (Lit("False"),)),))
        if isinstance(v, Sym) and v.tags == frozenset({"str"}):
            return S((Dyn(v, "raw"),))
        if isinstance(v, Sym):
            ft = self.cur_tags(v)
            if ft == frozenset({"str"}):
                return S((Dyn(v, "raw"),))
            if ft and not any(("pypika_tortoise." + t) in self.repo.classes for t in ft):
                return S((Dyn(v, "str:" + "|".join(sorted(ft))),))
        if isinstance(v, (Sym, Obj)):
            ci = self.cls_of(v) if isinstance(v, Obj) else None
            if isinstance(v, Obj) and self.hobj(v).kind == "inst" and ci is not None:
                r = ci.resolve("__str__")
                if r and r[0] == "func":
                    return self.to_shape(self.call_function(r[1], [v], {}, self_val=v))
            if isinstance(v, Obj) and self.hobj(v).kind == "inst" or (
                    isinstance(v, Sym) and v.tags and any(("pypika_tortoise." + t) in self.repo.classes
                                                          for t in v.tags)):
                # str() of a package object = its __str__ contract (pure render under its default context)
                return self.to_shape(self.contract_call(v, "__str__", (), {}))
            return S((Dyn(v, "str"),))
        if isinstance(v, I):
            return S((Dyn(v, "str"),))
        if isinstance(v, Tu):
            return S((Dyn(v, "str"),))
        raise Unsupported(f"str of {v!r}")

    def cur_tags(self, v):
        """possible dynamic kinds of a symbolic datum under the current path condition"""
        if isinstance(v, Sym):
            if v.tags is not None and len(v.tags) == 1:
                return v.tags
            return self.feasible_tags(v.path, v.tags)
        if isinstance(v, Obj):
            h = self.hobj(v)
            if h.cls is not None:
                return frozenset({h.cls.short})
            if h.kind != "inst":
                return frozenset({h.kind})
            return self.feasible_tags(h.path, h.tags)
        return None

    # ------------------------------------------------------------------ names
    def lookup_name(self, name: str) -> V:
        fr = self.frames[-1]
        if name in fr.locals:
            return fr.locals[name]
        # enclosing function scopes (closures)
        for outer in reversed(self.frames[:-1]):
            if outer.func is not None and fr.func is None and name in outer.locals:
                return outer.locals[name]
        if fr.func is None and fr.module is None:
            raise Unsupported(f"name {name}")
        mod = fr.module
        r = self.repo.lookup_global(mod, name)
        if r is None:
            import builtins
            if hasattr(builtins, name):
                return Fn("builtin", name)
            raise Unsupported(f"unknown name {name}")
        if r[0] == "func":
            return Fn("func", r[1])
        if r[0] == "class":
            return Fn("class", r[1])
        if r[0] == "const":
            return self.lift_live(getattr(r[2].live, name))
        obj = r[1]
        return self.lift_live(obj)

    # ------------------------------------------------------------------ eval
    def eval(self, e: ast.expr) -> V:
        m = getattr(self, "ev_" + type(e).__name__, None)
        if m is None:
            raise Unsupported(f"expression {type(e).__name__} (line {getattr(e, 'lineno', '?')})")
        return m(e)

    def ev_Constant(self, e):
        if isinstance(e.value, str):
            return lit(e.value)
        return K(e.value)

    def ev_Name(self, e):
        return self.lookup_name(e.id)

    def ev_Attribute(self, e):
        v = self.eval(e.value)
        return self.get_attr(v, e.attr)

    def ev_JoinedStr(self, e):
        parts = []
        for v in e.values:
            if isinstance(v, ast.Constant):
                parts.append(lit(v.value))
            else:
                if v.format_spec is not None or v.conversion not in (-1, 115):
                    raise Unsupported("f-string format spec")
                parts.append(self.to_shape(self.eval(v.value)))
        return cat(*parts)

    def ev_Tuple(self, e):
        return Tu(self.seq_parts(e.elts))

    def ev_List(self, e):
        return self.new_list_parts(self.seq_parts(e.elts))

    def ev_Set(self, e):
        return self.new_list_parts(self.seq_parts(e.elts), kind="set")

    def ev_Dict(self, e):
        o = self.alloc("dict", True, self.fresh_name("dict"))
        h = self.hobj(o)
        for k, v in zip(e.keys, e.values):
            if k is None:
                raise Unsupported("dict unpack")
            kv = self.eval(k)
            h.items[self.dict_key(kv)] = self.eval(v)
        return o

    def dict_key(self, kv):
        if isinstance(kv, S) and all(isinstance(a, Lit) for a in kv.atoms):
            return "".join(a.s for a in kv.atoms)
        if isinstance(kv, K):
            return kv.v
        raise Unsupported(f"symbolic dict key {kv!r}")

    def seq_parts(self, elts) -> tuple:
        parts, cur = [], []
        for x in elts:
            if isinstance(x, ast.Starred):
                if cur:
                    parts.append(Elems(tuple(cur)))
                    cur = []
                parts.extend(self.iter_parts(self.eval(x.value)))
            else:
                cur.append(self.eval(x))
        if cur:
            parts.append(Elems(tuple(cur)))
        return self.norm_parts(parts)

    def norm_parts(self, parts) -> tuple:
        out = []
        for p in parts:
            if isinstance(p, Elems):
                if not p.items:
                    continue
                if out and isinstance(out[-1], Elems):
                    out[-1] = Elems(out[-1].items + p.items)
                    continue
            out.append(p)
        return tuple(out)

    def iter_parts(self, v: V, ordered=True) -> tuple:
        """sequence parts of an iterable value; ordered=True means the consumer depends on the iteration order,
        which is recorded when the iterable is a hash-ordered set (O-DET, C02)"""
        if isinstance(v, IteV):
            v = v.a if self.decide(v.c) else v.b
        if ordered:
            if isinstance(v, Obj) and self.hobj(v).kind == "set":
                fr = self.frames[-1].func.short if self.frames and self.frames[-1].func else "?"
                self.note(f"set-iter:{self.hobj(v).path}@{fr}")
                # remember the parts of the set: an ordered container built from them stores the hash order
                self.__dict__.setdefault("set_part_reprs", set()).update(repr(p) for p in self.hobj(v).parts)
            elif isinstance(v, K) and isinstance(v.v, (set, frozenset)):
                self.note(f"set-iter:<constant set>")
            elif isinstance(v, Sym) and v.tags and v.tags <= {"set", "NoneType"}:
                self.note(f"set-iter:{v.path}")
        if isinstance(v, Tu):
            return v.parts
        if isinstance(v, Sym):
            spec = self.symspec.get(v.path, "")
            from .core import _union_parts
            if v.tags and v.tags <= {"list", "set", "tuple"} or any(
                    _ps(part)[0] in ("list", "set") for part in _union_parts(spec or "any")):
                if v.tags and "NoneType" in v.tags:
                    if self.decide(self.is_none_formula(v)):
                        raise PathEnd("raise", ("TypeError", f"{v.path} is None, not iterable"))
                v = self.as_obj(v)
            else:
                return (PreSeq(v.path, "any"),)
        if isinstance(v, Obj):
            h = self.hobj(v)
            if h.kind in ("list", "set"):
                return h.parts
            if h.kind == "dict":
                return (Elems(tuple(self.from_py(k) for k in h.items)),)
            raise Unsupported("iterating an instance")
        if isinstance(v, K):
            if isinstance(v.v, (list, tuple, set, frozenset, dict, str)):
                if isinstance(v.v, (set, frozenset)):
                    items = sorted(v.v, key=repr)
                else:
                    items = list(v.v)
                return (Elems(tuple(self.from_py(x) for x in items)),) if items else ()
            raise Unsupported(f"iterating {v!r}")
        if isinstance(v, S):
            raise Unsupported("iterating a string")
        raise Unsupported(f"iterating {v!r}")

    def from_py(self, x) -> V:
        if isinstance(x, str):
            return lit(x)
        if isinstance(x, tuple):
            return Tu((Elems(tuple(self.from_py(i) for i in x)),)) if x else Tu(())
        return self.lift_live(x)

    def ev_BoolOp(self, e):
        # value-level and/or with short circuit
        vals = e.values
        cur = self.eval(vals[0])
        for nxt in vals[1:]:
            t = z3.simplify(self.truth(cur))
            if isinstance(e.op, ast.And):
                if z3.is_false(t):
                    return cur
                if z3.is_true(t):
                    cur = self.eval(nxt)
                    continue
            else:
                if z3.is_true(t):
                    return cur
                if z3.is_false(t):
                    cur = self.eval(nxt)
                    continue
            if self.smt.implied(self.st.pc, t):
                t = TRUE
            elif self.smt.implied(self.st.pc, z3.Not(t)):
                t = FALSE
            if z3.is_true(t) or z3.is_false(t):
                take_next = z3.is_true(t) if isinstance(e.op, ast.And) else z3.is_false(t)
                if take_next:
                    cur = self.eval(nxt)
                    continue
                return cur
            # `x or ""` for a str-typed x is x itself
            if isinstance(e.op, ast.Or) and isinstance(cur, Sym) and cur.tags == frozenset({"str"}) and \
                    isinstance(nxt, ast.Constant) and nxt.value == "":
                continue
            # undecided: evaluate rhs without side effects if possible, else fork
            if self.pure_expr(nxt):
                # evaluate the right operand under the assumption that it is reached
                assumption = t if isinstance(e.op, ast.And) else z3.Not(t)
                self.st.pc.append(assumption)
                mark = self.st.pc
                try:
                    rhs = self.eval(nxt)
                finally:
                    for i in range(len(self.st.pc) - 1, -1, -1):
                        if self.st.pc[i] is assumption:
                            del self.st.pc[i]
                            break
                if isinstance(e.op, ast.And):
                    cur = self.ite_val(t, rhs, cur)
                else:
                    cur = self.ite_val(t, cur, rhs)
            else:
                d = self.decide(t)
                if isinstance(e.op, ast.And):
                    if not d:
                        return cur
                    cur = self.eval(nxt)
                else:
                    if d:
                        return cur
                    cur = self.eval(nxt)
        return cur

    def ite_val(self, c, a: V, b: V) -> V:
        c = z3.simplify(c)
        if z3.is_true(c):
            return a
        if z3.is_false(c):
            return b
        if a == b:
            return a
        if isinstance(a, (B, K)) and isinstance(b, (B, K)) and all(
                isinstance(x, B) or isinstance(x.v, bool) for x in (a, b)):
            return B(z3.simplify(z3.If(c, self.truth(a), self.truth(b))))
        strsym = lambda v: isinstance(v, Sym) and v.tags == frozenset({"str"})
        if isinstance(a, S) and strsym(b):
            b = S((Dyn(b, "raw"),))
        if isinstance(b, S) and strsym(a):
            a = S((Dyn(a, "raw"),))
        if isinstance(a, S) and isinstance(b, K) and isinstance(b.v, str):
            b = lit(b.v)
        if isinstance(b, S) and isinstance(a, K) and isinstance(a.v, str):
            a = lit(a.v)
        if isinstance(a, S) and isinstance(b, S):
            return ite_shape(c, a, b)
        ia, ib = self.int_of(a), self.int_of(b)
        if ia is not None and ib is not None:
            return I(z3.If(c, ia, ib))
        return IteV(c, a, b)

    def pure_expr(self, e: ast.expr) -> bool:
        for n in ast.walk(e):
            if isinstance(n, (ast.Call, ast.NamedExpr, ast.Await, ast.Yield, ast.YieldFrom)):
                if isinstance(n, ast.Call) and isinstance(n.func, ast.Name) and n.func.id in (
                        "isinstance", "len", "bool", "hasattr", "getattr", "str"):
                    continue
                return False
        return True

    def ev_UnaryOp(self, e):
        v = self.eval(e.operand)
        if isinstance(e.op, ast.Not):
            return self.mk_bool(z3.Not(self.truth(v)))
        if isinstance(e.op, ast.USub):
            if isinstance(v, K):
                return K(-v.v)
            if isinstance(v, I):
                return I(-v.e)
            return self.binop_dunder(v, "__neg__", None)
        raise Unsupported("unary op")

    def mk_bool(self, f) -> V:
        f = z3.simplify(f)
        if z3.is_true(f):
            return K(True)
        if z3.is_false(f):
            return K(False)
        return B(f)

    def ev_IfExp(self, e):
        t = self.truth(self.eval(e.test))
        t = z3.simplify(t)
        if not (z3.is_true(t) or z3.is_false(t)):
            if self.smt.implied(self.st.pc, t):
                t = TRUE
            elif self.smt.implied(self.st.pc, z3.Not(t)):
                t = FALSE
        if z3.is_true(t):
            return self.eval(e.body)
        if z3.is_false(t):
            return self.eval(e.orelse)
        # try a merged evaluation of both arms (guarded effects), else fork
        fr = self.frames[-1]
        keep = dict(fr.locals)
        r = self.try_merge(t, lambda: self.eval(e.body), lambda: self.eval(e.orelse))
        fr.locals = keep
        if r is not None:
            return r
        return self.eval(e.body) if self.decide(t) else self.eval(e.orelse)

    def sub_explore(self, f, start, limit=200):
        """explore f() from `start` as a mergeable unit: writes only to objects allocated inside"""
        self.merge_depth += 1
        self.merge_marks.append(f"{self.idp}.{self.idc + 1}")      # the id the nested exploration will get
        try:
            return self.explore(f, start=start, limit=limit)
        except MergeAbort:
            return None
        except Unsupported as e:
            if "path explosion" in str(e):
                return None
            raise
        finally:
            self.merge_depth -= 1
            self.merge_marks.pop()

    def join_outcomes(self, base, outs, nb, ne, nw, cond=None):
        """fold the outcomes of a sub-exploration into `base`: value/locals become Ite chains over the path
        guards, effects are appended path by path with their guards"""
        cur_v, cur_l = None, None
        for o in reversed(outs):
            g = conj(o.state.pc[nb:])
            o.guard = g
            self.adopt_heap(base, o.state)
            gg = g if cond is None else (z3.And(cond, g) if not z3.is_true(g) else cond)
            if not z3.is_true(gg):
                for ef in o.state.effects[ne:]:
                    ef.guard = gg if ef.guard is None else z3.And(gg, ef.guard)
            if cur_v is None and cur_l is None:
                cur_v, cur_l = o.value, dict(o.locals)
            else:
                cur_v = self.ite_val(g, o.value if o.value is not None else K(None),
                                     cur_v if cur_v is not None else K(None))
                cur_l = self.merge_locals(g, o.locals, cur_l)
        for o in outs:
            base.effects.extend(o.state.effects[ne:])
            base.writes.extend(o.state.writes[nw:])
            for n in o.state.notes[len(base.notes):]:
                if n not in base.notes:
                    base.notes.append(n)
        return cur_v, cur_l

    def try_merge(self, t, fa, fb, want_locals=False):
        """evaluate both arms by sub-exploration and join all their paths into one state; gives up (None) when
        an arm writes pre-existing heap objects, raises or jumps"""
        base = self.st
        ne, nw, nb = len(base.effects), len(base.writes), len(base.pc)
        arms = []
        for cond, f in ((t, fa), (z3.Not(t), fb)):
            start = base.snapshot()
            self.push_cond(start, cond)
            if not self.smt.feasible(start.pc):
                arms.append((cond, []))
                continue
            outs = self.sub_explore(f, start, limit=64)
            if outs is None or any(o.status != "normal" for o in outs):
                return None
            arms.append((cond, outs))
        if not arms[0][1] and not arms[1][1]:
            raise PathEnd("infeasible")
        vals, locs = [], []
        for cond, outs in arms:
            v, l = self.join_outcomes(base, outs, nb + 1, ne, nw, cond) if outs else (None, None)
            vals.append(v)
            locs.append(l)
        if not arms[0][1]:
            v, l = vals[1], locs[1]
        elif not arms[1][1]:
            v, l = vals[0], locs[0]
        else:
            v = self.ite_val(t, vals[0] if vals[0] is not None else K(None),
                             vals[1] if vals[1] is not None else K(None))
            l = self.merge_locals(t, locs[0], locs[1])
        if want_locals:
            return (v, l)
        return v if v is not None else K(None)

    def _arm(self, f):
        return f()

    def merge_locals(self, c, la, lb):
        out = dict(lb)
        for k in set(la) | set(lb):
            va, vb = la.get(k), lb.get(k)
            if va is None or vb is None:
                out[k] = va if va is not None else vb
            else:
                out[k] = self.ite_val(c, va, vb)
        return out

    def ev_Compare(self, e):
        left = self.eval(e.left)
        result = None
        for op, rhs in zip(e.ops, e.comparators):
            right = self.eval(rhs)
            r = self.compare(op, left, right)
            if result is None:
                result = r
            else:
                result = self.mk_bool(z3.And(self.truth(result), self.truth(r)))
            left = right
        return result

    def const_of(self, v):
        """python constant of a fully concrete value, else raises KeyError"""
        if isinstance(v, K):
            return v.v
        if isinstance(v, S) and all(isinstance(a, Lit) for a in v.atoms):
            return "".join(a.s for a in v.atoms)
        if isinstance(v, Tu) and all(isinstance(p, Elems) for p in v.parts):
            return tuple(self.const_of(i) for p in v.parts for i in p.items)
        raise KeyError

    def is_none_formula(self, v):
        if isinstance(v, K):
            return z3.BoolVal(v.v is None)
        if isinstance(v, Sym):
            if v.tags is not None and "NoneType" not in v.tags:
                return FALSE
            return self.smt.tag_in(v.path, frozenset({"NoneType"}), v.tags)
        if isinstance(v, IteV):
            return z3.If(v.c, self.is_none_formula(v.a), self.is_none_formula(v.b))
        return FALSE

    def ident(self, v) -> str:
        """canonical identity string for building atoms"""
        if isinstance(v, Sym):
            return v.path
        if isinstance(v, Obj):
            return self.hobj(v).path
        if isinstance(v, K):
            return repr(v.v)
        if isinstance(v, S):
            return repr(v)
        if isinstance(v, I):
            return str(v.e)
        if isinstance(v, B):
            return str(v.f)
        if isinstance(v, Tu):
            return "(" + ",".join(self.ident(i) for p in v.parts for i in (p.items if isinstance(p, Elems) else [p])) + ")"
        if isinstance(v, Fn):
            return repr(v)
        if isinstance(v, IteV):
            return f"ite({v.c},{self.ident(v.a)},{self.ident(v.b)})"
        return repr(v)

    def compare(self, op, a: V, b: V) -> V:
        if isinstance(op, (ast.Is, ast.IsNot)):
            neg = isinstance(op, ast.IsNot)
            if isinstance(b, K) and b.v is None:
                f = self.is_none_formula(a)
            elif isinstance(a, K) and a.v is None:
                f = self.is_none_formula(b)
            elif isinstance(a, Obj) and isinstance(b, Obj):
                f = z3.BoolVal(a.oid == b.oid)
            else:
                try:
                    f = z3.BoolVal(self.const_of(a) is self.const_of(b))
                except KeyError:
                    f = self.smt.atom("is!" + "|".join(sorted([self.ident(a), self.ident(b)])))
            return self.mk_bool(z3.Not(f) if neg else f)
        if isinstance(op, (ast.In, ast.NotIn)):
            f = self.contains(b, a)
            return self.mk_bool(z3.Not(f) if isinstance(op, ast.NotIn) else f)
        if isinstance(op, (ast.Eq, ast.NotEq)):
            neg = isinstance(op, ast.NotEq)
            try:
                ca, cb = self.const_of(a), self.const_of(b)
                return K((ca != cb) if neg else (ca == cb))
            except KeyError:
                pass
            if isinstance(a, I) or isinstance(b, I):
                ea, eb = self.int_of(a), self.int_of(b)
                if ea is not None and eb is not None:
                    return self.mk_bool(ea != eb if neg else ea == eb)
            # user-defined __eq__ on package objects
            r = self.dunder_eq(a, b, neg)
            if r is not None:
                return r
            f = self.eq_formula(a, b)
            return self.mk_bool(z3.Not(f) if neg else f)
        # ordering
        ea, eb = self.int_of(a), self.int_of(b)
        if ea is not None and eb is not None:
            f = {ast.Lt: ea < eb, ast.LtE: ea <= eb, ast.Gt: ea > eb, ast.GtE: ea >= eb}[type(op)]
            return self.mk_bool(f)
        name = {ast.Lt: "__lt__", ast.LtE: "__le__", ast.Gt: "__gt__", ast.GtE: "__ge__"}[type(op)]
        return self.binop_dunder(a, name, b)

    def eq_formula(self, a, b):
        if isinstance(a, IteV):
            return z3.If(a.c, self.eq_formula(a.a, b), self.eq_formula(a.b, b))
        if isinstance(b, IteV):
            return z3.If(b.c, self.eq_formula(a, b.a), self.eq_formula(a, b.b))
        if isinstance(b, K) and b.v is None:
            return self.is_none_formula(a)
        if isinstance(a, K) and a.v is None:
            return self.is_none_formula(b)
        # enum-valued symbolic data against a concrete member: use the tag-free atom but make distinct
        # members mutually exclusive through a finite-domain encoding
        if isinstance(a, Sym) and isinstance(b, K) and isinstance(b.v, enum.Enum):
            return self.enum_eq(a, b.v)
        if isinstance(b, Sym) and isinstance(a, K) and isinstance(a.v, enum.Enum):
            return self.enum_eq(b, a.v)
        ia, ib = sorted([self.ident(a), self.ident(b)])
        if ia == ib:
            return TRUE
        if isinstance(a, Sym) and isinstance(b, Sym) and self.is_enum_sym(a) and self.is_enum_sym(b):
            # two enum-valued data: equal iff the same member (members are indexed injectively)
            return self.enum_var(a) == self.enum_var(b)
        return self.smt.atom(f"eq!{ia}|{ib}")

    def is_enum_sym(self, s: Sym) -> bool:
        if not s.tags:
            return False
        for t in s.tags:
            if t == "Enum":
                continue
            ci = self.repo.classes_by_short.get(t) if hasattr(self.repo, "classes_by_short") else None
            if ci is None:
                ci = next((c for c in self.repo.classes.values() if c.short == t), None)
            if ci is None or not (isinstance(ci.live, type) and issubclass(ci.live, enum.Enum)):
                return False
        return True

    def enum_var(self, s: Sym):
        key = "enum!" + s.path
        var = self.smt.ints.get(key)
        if var is None:
            var = self.smt.int(key)
            self.smt.axioms.append(z3.And(var >= -1, var < 10_000))
        return var

    def enum_eq(self, s: Sym, member):
        key = "enum!" + s.path
        var = self.smt.ints.get(key)
        members = list(type(member))
        if var is None:
            var = self.smt.int(key)
            self.smt.axioms.append(z3.And(var >= -1, var < 10_000))
        # index members globally by (class name, member name)
        idx = self.enum_index(member)
        return var == idx

    def enum_index(self, member) -> int:
        tbl = self.__dict__.setdefault("_enum_tbl", {})
        k = (type(member).__name__, member.name)
        if k not in tbl:
            tbl[k] = len(tbl)
        return tbl[k]

    def int_of(self, v):
        if isinstance(v, I):
            return v.e
        if isinstance(v, K) and isinstance(v.v, int) and not isinstance(v.v, bool):
            return z3.IntVal(v.v)
        return None

    def dunder_eq(self, a, b, neg):
        """a == b where type(a) defines __eq__ in the package"""
        classes = None
        if isinstance(a, (Obj, Sym)):
            if isinstance(a, Sym):
                tags = a.tags
            else:
                h = self.hobj(a)
                tags = frozenset({h.cls.short}) if h.cls is not None else h.tags
            if not tags:
                return None
            classes = [self.repo.classes.get("pypika_tortoise." + t) for t in tags if t != "NoneType"]
            if not classes or any(c is None for c in classes):
                return None
        if classes is None:
            return None
        name = "__ne__" if neg else "__eq__"
        targets = set()
        for c in classes:
            r = c.resolve(name)
            targets.add(r[1] if r and r[0] == "func" else None)
        term_eq = self.repo.cls("terms.Term").methods.get(name)
        if targets == {term_eq}:
            # Term.__eq__ builds a criterion object (always truthy) - execute it
            if isinstance(a, Sym) and a.tags and "NoneType" in a.tags:
                if self.decide(self.is_none_formula(a)):
                    return self.mk_bool(z3.Not(self.is_none_formula(b)) if neg else self.is_none_formula(b))
            return self.call_function(term_eq, [a, b], {}, self_val=a)
        if term_eq in targets:
            # mixed: decide whether the receiver uses Term.__eq__
            names = frozenset(c.short for c in classes
                              if (c.resolve(name) or (None, None))[1] == term_eq)
            path = a.path if isinstance(a, Sym) else self.hobj(a).path
            alltags = a.tags if isinstance(a, Sym) else self.hobj(a).tags
            if self.decide(self.smt.tag_in(path, names, alltags)):
                return self.call_function(term_eq, [a, b], {}, self_val=a)
        # boolean-valued __eq__ (Table, Schema, AliasedQuery, QueryBuilder) or default identity: an atom
        return None

    def contains(self, container: V, item: V):
        if isinstance(container, IteV):
            return z3.If(container.c, self.contains(container.a, item), self.contains(container.b, item))
        if isinstance(container, K) and isinstance(container.v, (list, tuple, set, frozenset, dict, str)):
            try:
                return z3.BoolVal(self.const_of(item) in container.v)
            except (KeyError, TypeError):
                return disj([self.truth(self.compare(ast.Eq(), item, self.from_py(x))) for x in container.v])
        if isinstance(container, S):
            return self.smt.atom(f"substr!{self.ident(item)}|{self.ident(container)}")
        parts = self.iter_parts(container, ordered=False)
        fs = []
        for p in parts:
            if isinstance(p, Elems):
                for x in p.items:
                    r = self.compare(ast.Eq(), item, x)
                    fs.append(self.truth(r))
            elif isinstance(p, PreSeq):
                fs.append(self.smt.atom(f"in!{self.ident(item)}|{p.path}"))
            else:
                fs.append(self.smt.atom(f"in!{self.ident(item)}|map{p.lid}"))
        return disj(fs)

    # ------------------------------------------------------------------ arithmetic / operators
    def ev_BinOp(self, e):
        a = self.eval(e.left)
        b = self.eval(e.right)
        return self.binop(e.op, a, b)

    def binop(self, op, a, b):
        if isinstance(op, ast.Add):
            if isinstance(a, S) or isinstance(b, S):
                if isinstance(a, S) and isinstance(b, S):
                    return cat(a, b)
                if isinstance(a, S) and isinstance(b, Sym) and b.tags == frozenset({"str"}):
                    return cat(a, self.to_shape(b))
                if isinstance(b, S) and isinstance(a, Sym) and a.tags == frozenset({"str"}):
                    return cat(self.to_shape(a), b)
                if isinstance(a, S) and isinstance(b, Sym) or isinstance(b, S) and isinstance(a, Sym):
                    # str + user datum: concatenation when the datum is a str (TypeError otherwise)
                    x, y = (a, self.to_shape(b)) if isinstance(a, S) else (self.to_shape(a), b)
                    return cat(x, y)
            if self.is_listlike(a) and self.is_listlike(b):
                pa, pb = self.iter_parts(a), self.iter_parts(b)
                if isinstance(a, Tu):
                    return Tu(self.norm_parts(pa + pb))
                return self.new_list_parts(self.norm_parts(pa + pb))
            if isinstance(a, Sym) and a.tags == frozenset({"str"}) and isinstance(b, Sym):
                return cat(self.to_shape(a), self.to_shape(b))
        ea, eb = self.int_of(a), self.int_of(b)
        if ea is not None and eb is not None:
            if isinstance(op, ast.Add):
                return self.mk_int(ea + eb)
            if isinstance(op, ast.Sub):
                return self.mk_int(ea - eb)
            if isinstance(op, ast.Mult):
                return self.mk_int(ea * eb)
        if isinstance(op, ast.Mult) and isinstance(a, S):
            try:
                n = self.const_of(b)
                return cat(*([a] * n))
            except KeyError:
                pass
            return S((OpA("repeat", (a, b)),))
        if isinstance(op, ast.Mult) and isinstance(a, Sym) and isinstance(b, K) and isinstance(b.v, int):
            sh = self.to_shape(a)
            return cat(*([sh] * b.v))
        if isinstance(op, ast.Mod) and isinstance(a, S):
            return self.percent_format(a, b)
        if isinstance(op, ast.BitOr) and self.is_setlike(a) and self.is_setlike(b):
            return self.new_list_parts(self.norm_parts(self.iter_parts(a, False) + self.iter_parts(b, False)),
                                       kind="set")
        if isinstance(op, ast.Sub) and self.is_setlike(a) and self.is_setlike(b):
            lid = self.new_lid()
            return self.alloc("set", True, self.fresh_name("setdiff"),
                              parts=(PreSeq(f"setdiff{lid}({self.ident(a)},{self.ident(b)})", "any"),))
        name = {ast.Add: "__add__", ast.Sub: "__sub__", ast.Mult: "__mul__", ast.Div: "__truediv__",
                ast.Mod: "__mod__", ast.Pow: "__pow__", ast.BitAnd: "__and__", ast.BitOr: "__or__",
                ast.BitXor: "__xor__"}.get(type(op))
        if name is None:
            raise Unsupported(f"binary operator {type(op).__name__}")
        return self.binop_dunder(a, name, b)

    def mk_int(self, e):
        e = z3.simplify(e)
        if z3.is_int_value(e):
            return K(e.as_long())
        return I(e)

    def is_listlike(self, v):
        if isinstance(v, Tu):
            return True
        if isinstance(v, Obj):
            return self.hobj(v).kind == "list"
        if isinstance(v, K):
            return isinstance(v.v, (list, tuple))
        return False

    def is_setlike(self, v):
        return isinstance(v, Obj) and self.hobj(v).kind == "set"

    def binop_dunder(self, a, name, b):
        """operator dispatch to a package __dunder__ on the left operand"""
        if isinstance(a, IteV):
            a = a.a if self.decide(a.c) else a.b
        args = [a] if b is None else [a, b]
        if isinstance(a, (Obj, Sym)):
            if isinstance(a, Sym) and a.tags and "NoneType" in a.tags:
                self.assume(z3.Not(self.is_none_formula(a)))
            tags = a.tags if isinstance(a, Sym) else (
                frozenset({self.hobj(a).cls.short}) if self.hobj(a).cls else self.hobj(a).tags)
            classes = [self.repo.classes.get("pypika_tortoise." + t) for t in (tags or ()) if t != "NoneType"]
            classes = [c for c in classes if c is not None]
            groups = {}
            for c in classes:
                r = c.resolve(name)
                groups.setdefault(r[1] if r and r[0] == "func" else None, []).append(c)
            keys = list(groups)
            if keys:
                for i, k in enumerate(keys):
                    if i == len(keys) - 1 or self.decide(self.smt.tag_in(
                            self.ident(a), frozenset(c.short for c in groups[k]), tags)):
                        if k is None:
                            break
                        return self.call_function(k, args, {}, self_val=a)
        return Sym(self.fresh_name(f"op{name}"), None)

    def percent_format(self, fmt: S, arg: V) -> S:
        try:
            f = self.const_of(fmt)
        except KeyError:
            raise Unsupported("symbolic % format")
        args = list(i for p in arg.parts for i in p.items) if isinstance(arg, Tu) else [arg]
        out, i, pos = [], 0, 0
        while True:
            j = f.find("%", pos)
            if j < 0:
                out.append(lit(f[pos:]))
                break
            out.append(lit(f[pos:j]))
            c = f[j + 1]
            if c == "%":
                out.append(lit("%"))
            elif c in "sd":
                out.append(self.to_shape(args[i]))
                i += 1
            else:
                raise Unsupported("% format code")
            pos = j + 2
        return cat(*out)

    def ev_NamedExpr(self, e):
        v = self.eval(e.value)
        self.frames[-1].locals[e.target.id] = v
        return v

    def ev_Subscript(self, e):
        base = self.eval(e.value)
        if isinstance(e.slice, ast.Slice):
            lo = self.eval(e.slice.lower) if e.slice.lower else K(None)
            hi = self.eval(e.slice.upper) if e.slice.upper else K(None)
            return self.slice_val(base, lo, hi)
        idx = self.eval(e.slice)
        return self.index_val(base, idx)

    def index_val(self, base, idx):
        if isinstance(base, IteV):
            base = base.a if self.decide(base.c) else base.b
        if isinstance(base, Obj) and self.hobj(base).kind == "dict":
            return self.hobj(base).items[self.dict_key(idx)]
        if isinstance(base, K) and isinstance(base.v, (list, tuple, dict, str)):
            try:
                return self.from_py(base.v[self.const_of(idx)])
            except KeyError:
                raise Unsupported("symbolic index into constant")
        if isinstance(base, (Tu, Obj)) and (isinstance(base, Tu) or self.hobj(base).kind == "list"):
            parts = self.iter_parts(base)
            if isinstance(idx, K) and isinstance(idx.v, int):
                i = idx.v
                flat = []
                exact = True
                for p in parts:
                    if isinstance(p, Elems):
                        flat.extend(p.items)
                    else:
                        exact = False
                        break
                if i >= 0:
                    if i < len(flat):
                        return flat[i]
                    if exact:
                        raise PathEnd("raise", ("IndexError", "index"))
                    # element of a symbolic sequence
                    if len(parts) == 1 and isinstance(parts[0], PreSeq):
                        p = parts[0]
                        self.assume(self.smt.int("len!" + p.path, nonneg=True) > i)
                        return self.make_sym(f"{p.path}[{i}]", p.spec)
                else:
                    # negative index from the end
                    tail = []
                    for p in reversed(parts):
                        if isinstance(p, Elems):
                            tail = list(p.items) + tail
                        else:
                            break
                    if -i <= len(tail):
                        return tail[i]
                    if len(parts) == 1 and isinstance(parts[0], PreSeq):
                        p = parts[0]
                        self.assume(self.smt.int("len!" + p.path, nonneg=True) >= -i)
                        return self.make_sym(f"{p.path}[{i}]", p.spec)
            return Sym(self.fresh_name(f"{self.ident(base)}[{self.ident(idx)}]"), None)
        if isinstance(base, Sym):
            ft = self.feasible_tags(base.path, base.tags)
            if ft and not any(("pypika_tortoise." + t) in self.repo.classes for t in ft):
                return Sym(f"{base.path}[{self.ident(idx)}]", None, base.label)
        if isinstance(base, (Obj, Sym)):
            return self.binop_dunder(base, "__getitem__", idx)
        raise Unsupported(f"subscript of {base!r}")

    def slice_val(self, base, lo, hi):
        if isinstance(base, IteV):
            return self.slice_val(base.a if self.decide(base.c) else base.b, lo, hi)
        if isinstance(base, S):
            return self.shape_slice(base, lo, hi)
        if isinstance(base, Sym):
            ft = self.feasible_tags(base.path, base.tags)
            if ft and ft <= {"str"}:
                return self.shape_slice(self.to_shape(base), lo, hi)
            return Tu((PreSeq(f"{base.path}[{self.ident(lo)}:{self.ident(hi)}]", "any"),))
        if isinstance(base, (Tu, Obj, K)):
            parts = self.iter_parts(base)
            if (lo == K(None) or lo == K(0)) and hi == K(None):
                pr = self.norm_parts(list(parts))            # x[:] - a copy of the whole sequence
                return Tu(pr) if isinstance(base, (Tu, K)) else self.new_list_parts(pr)
            if isinstance(lo, K) and isinstance(lo.v, int) and lo.v >= 0 and hi == K(None):
                n = lo.v
                out = list(parts)
                while n and out and isinstance(out[0], Elems):
                    k = min(n, len(out[0].items))
                    rest = out[0].items[k:]
                    n -= k
                    out = ([Elems(rest)] if rest else []) + out[1:]
                if n == 0:
                    pr = self.norm_parts(out)
                    return Tu(pr) if isinstance(base, (Tu, K)) else self.new_list_parts(pr)
                if len(out) == 1 and isinstance(out[0], PreSeq):
                    pr = (PreSeq(f"{out[0].path}[{n}:]", out[0].spec),)
                    return Tu(pr) if isinstance(base, (Tu, K)) else self.new_list_parts(pr)
            raise Unsupported("slice of sequence")
        raise Unsupported("slice")

    def shape_slice(self, s: S, lo, hi):
        return S((OpA("slice", (s, lo, hi)),))

    def ev_Lambda(self, e):
        return Fn("lambda", e, None, dict(self.frames[-1].locals))

    def ev_Starred(self, e):
        raise Unsupported("starred expression outside call/display")

    # ------------------------------------------------------------------ comprehensions
    def ev_ListComp(self, e):
        return self.comprehension(e, "list")

    def ev_DictComp(self, e):
        """{k: v for x in seq if c}: the key and value expressions are evaluated per element as a list comprehension
        of pairs (reads, effects and raise sites are recorded); the resulting mapping is opaque: look-ups yield
        uninterpreted data named after the mapping"""
        import ast as _ast
        pair = _ast.Tuple(elts=[e.key, e.value], ctx=_ast.Load())
        lc = _ast.ListComp(elt=pair, generators=e.generators)
        _ast.copy_location(lc, e)
        _ast.fix_missing_locations(lc)
        self.comprehension(lc, "list")
        o = self.alloc("dict", True, self.fresh_name("dictcomp"))
        h = self.hobj(o)
        h.spec = "kwargs"
        h.attrs["**"] = Sym(h.path, None)
        return o

    def ev_SetComp(self, e):
        return self.comprehension(e, "set")

    def ev_GeneratorExp(self, e):
        return self.comprehension(e, "gen")

    def comprehension(self, e, kind):
        if len(e.generators) != 1:
            raise Unsupported("nested comprehension generators")
        g = e.generators[0]
        seq = self.eval(g.iter)
        parts = self.iter_parts(seq, ordered=(kind != "set"))
        out_parts = []
        for p in parts:
            if isinstance(p, Elems):
                for item in p.items:
                    self.bind_target(g.target, item)
                    ok = True
                    for cond in g.ifs:
                        if not self.decide(self.truth(self.eval(cond))):
                            ok = False
                            break
                    if ok:
                        out_parts.append(Elems((self.eval(e.elt),)))
            else:
                out_parts.append(self.map_part(p, g.target, g.ifs, e.elt))
        out_parts = self.norm_parts(out_parts)
        if kind == "set":
            return self.new_list_parts(out_parts, kind="set")
        if kind == "gen":
            return Gen(out_parts)
        return self.new_list_parts(out_parts)

    def elem_of(self, p) -> V:
        """generic element of a symbolic sequence part"""
        lid = self.new_lid()
        if isinstance(p, PreSeq):
            return self.make_sym(f"{p.path}[*{lid}]", p.spec), lid
        if isinstance(p, MapPart):
            # element of a mapped sequence: one of the alternatives' items; keep it abstract
            return Sym(f"map{p.lid}[*{lid}]", None), lid
        from .values import EnumPart
        if isinstance(p, EnumPart):
            inner, lid2 = self.elem_of(p.inner)
            return Tu((Elems((I(self.smt.int(f"idx!{lid2}", nonneg=True)), inner)),)), lid2
        raise Unsupported("element of part")

    def map_part(self, p, target, ifs, elt) -> MapPart:
        elem, lid = self.elem_of(p)
        base = self.st

        def run():
            self.bind_target(target, elem)
            for cond in ifs:
                if not self.decide(self.truth(self.eval(cond))):
                    return None
            return self.eval(elt)

        self.in_loop += 1
        try:
            outs = self.explore(run, start=base)
        finally:
            self.in_loop -= 1
        alts = []
        body = []
        nb = len(base.pc)
        for o in outs:
            g = conj(o.state.pc[nb:])
            if o.status == "raise":
                base.effects.append(Effect("raise-site", guard=g, args=(o.value,), lid=lid, site="loop"))
                continue
            if o.status != "normal":
                raise Unsupported("control flow in comprehension")
            if o.value is not None:
                alts.append((g, (o.value,)))
            body.append((g, o.state.effects[len(base.effects):]))
            self.adopt_heap(base, o.state)
            for w in o.state.writes[len(base.writes):]:
                w.in_loop = True
                base.writes.append(w)
        base.effects.append(Effect("loop", lid=lid, seq=p, elem=elem, body=body))
        total = not ifs and all(o.status == "normal" and o.value is not None for o in outs)
        return MapPart((p,), elem, tuple(alts), lid, False, total)

    def adopt_heap(self, base, other):
        for oid, h in other.heap.items():
            if oid not in base.heap:
                base.heap[oid] = h

    def bind_target(self, target, value: V):
        if isinstance(target, ast.Name):
            self.frames[-1].locals[target.id] = value
            return
        if isinstance(target, (ast.Tuple, ast.List)):
            items = self.unpack(value, len(target.elts))
            for t, v in zip(target.elts, items):
                self.bind_target(t, v)
            return
        raise Unsupported("binding target")

    def unpack(self, value: V, n: int) -> list:
        if isinstance(value, IteV):
            value = value.a if self.decide(value.c) else value.b
        if isinstance(value, Sym):
            spec = self.symspec.get(value.path, "")
            return [Sym(f"{value.path}.{i}", None) for i in range(n)]
        parts = self.iter_parts(value)
        flat = []
        for p in parts:
            if isinstance(p, Elems):
                flat.extend(p.items)
            elif isinstance(p, PreSeq) and len(parts) == 1:
                return [self.make_sym(f"{p.path}[{i}]", p.spec) for i in range(n)]
            else:
                raise Unsupported("unpacking symbolic sequence")
        if len(flat) != n:
            raise PathEnd("raise", ("ValueError", "unpack"))
        return flat


def _ps(spec):
    from .core import parse_spec
    try:
        return parse_spec(spec) if spec else ("scalar", "")
    except Exception:
        return ("scalar", "")
