"""Value domain of the symbolic executor (DESIGN §2.3)."""
from __future__ import annotations

import datetime
import decimal
import enum
import itertools
import uuid
from dataclasses import dataclass, field

import z3

from .front import ClassInfo, FuncInfo, Repo

# --------------------------------------------------------------------------------- type tags

EXT_KINDS: dict[str, type] = {
    "NoneType": type(None), "str": str, "int": int, "bool": bool, "float": float, "list": list,
    "tuple": tuple, "set": set, "dict": dict, "slice": slice, "Enum": enum.Enum,
    "date": datetime.date, "time": datetime.time, "datetime": datetime.datetime, "UUID": uuid.UUID,
    "Decimal": decimal.Decimal, "other": object,
}
# kinds whose instances are always truthy / never truthy / depend on content
ALWAYS_TRUE_EXT = {"slice", "Enum", "date", "time", "datetime", "UUID", "other"}


class Tags:
    """finite universe of dynamic classes: every package class + external kinds"""

    def __init__(self, repo: Repo):
        self.repo = repo
        self.names: list[str] = list(EXT_KINDS) + sorted(c.short for c in repo.classes.values())
        self.sort, consts = z3.EnumSort("Tag", [n.replace(".", "_") for n in self.names])
        self.const = dict(zip(self.names, consts))
        self.live: dict[str, type] = dict(EXT_KINDS)
        for c in repo.classes.values():
            self.live[c.short] = c.live
        self._sub_cache: dict[type, frozenset[str]] = {}
        # package classes whose instances are always truthy (no __bool__/__len__ in the MRO)
        self.always_true = set(ALWAYS_TRUE_EXT)
        for c in repo.classes.values():
            if not any(hasattr(k, "__dict__") and ("__bool__" in k.__dict__ or "__len__" in k.__dict__)
                       for k in c.live.__mro__ if k is not object):
                self.always_true.add(c.short)

    def sub(self, t) -> frozenset[str]:
        """tags whose instances satisfy isinstance(x, t) (t: live type, ClassInfo or tuple of them)"""
        if isinstance(t, tuple):
            return frozenset().union(*[self.sub(x) for x in t])
        if isinstance(t, ClassInfo):
            t = t.live
        if t in self._sub_cache:
            return self._sub_cache[t]
        out = set()
        for n, lt in self.live.items():
            if n == "other":
                continue
            if issubclass(lt, t):
                out.add(n)
        if t is object:
            out.add("other")
        r = frozenset(out)
        self._sub_cache[t] = r
        return r

    def all(self) -> frozenset[str]:
        return frozenset(self.names)

    def of_spec(self, spec: str) -> frozenset[str]:
        """tags of a type-spec union such as 'Term|None', 'terms.Field', 'str', 'any'"""
        out = set()
        for part in spec.split("|"):
            part = part.strip()
            if part in ("any", "object"):
                return self.all()
            if part == "None":
                out.add("NoneType")
            elif part == "name":
                out.add("str")
            elif part in EXT_KINDS:
                out |= self.sub(EXT_KINDS[part])
            else:
                out |= self.sub(self.repo.classes[_qual(self.repo, part)])
        return frozenset(out)


def _qual(repo: Repo, short: str) -> str:
    from .front import PKG
    if PKG + "." + short in repo.classes:
        return PKG + "." + short
    hits = [q for q, c in repo.classes.items() if c.name == short]
    if len(hits) != 1:
        raise KeyError(f"ambiguous or unknown class {short}: {hits}")
    return hits[0]


# --------------------------------------------------------------------------------- values

class V:
    __slots__ = ()


@dataclass(frozen=True)
class K(V):
    """concrete python value (None, bool, int, str, float, enum member, live class, live function, ...)"""
    v: object

    def __repr__(self):
        return f"K({self.v!r})"


@dataclass(frozen=True)
class Obj(V):
    """reference to a heap object"""
    oid: int

    def __repr__(self):
        return f"@{self.oid}"


@dataclass(frozen=True)
class Sym(V):
    """opaque symbolic datum (user value, name, result of an uninterpreted pure call)"""
    path: str
    tags: frozenset | None = None      # possible dynamic kinds, None = anything
    label: str = ""                    # taint label: 'name' for name-typed data, 'value', ''

    def __repr__(self):
        return f"${self.path}"


@dataclass(frozen=True)
class B(V):
    f: object   # z3 BoolRef

    def __repr__(self):
        return f"B({self.f})"


@dataclass(frozen=True)
class I(V):
    e: object   # z3 ArithRef

    def __repr__(self):
        return f"I({self.e})"


@dataclass(frozen=True)
class Tu(V):
    """immutable python tuple; parts is a tuple of sequence parts"""
    parts: tuple

    def __repr__(self):
        return f"Tu{self.parts}"


@dataclass(frozen=True)
class Gen(Tu):
    """a generator object (one-shot iterator): same sequence view as a tuple, but not re-iterable"""


@dataclass(frozen=True)
class IteV(V):
    c: object   # z3 BoolRef
    a: V
    b: V


@dataclass(frozen=True)
class Fn(V):
    """callable: kind in bound|func|class|builtin|lambda|super|live|classbound"""
    kind: str
    target: object = None          # FuncInfo | ClassInfo | python callable | ast.Lambda
    self_: V | None = None
    extra: object = None           # closure env for lambdas, defining class for super

    def __repr__(self):
        return f"Fn({self.kind},{self.target})"


@dataclass(frozen=True)
class S(V):
    """string as a shape: tuple of atoms"""
    atoms: tuple

    def __repr__(self):
        return "S[" + " ".join(map(repr, self.atoms)) + "]"


# --- shape atoms
@dataclass(frozen=True)
class Lit:
    s: str

    def __repr__(self):
        return repr(self.s)


@dataclass(frozen=True)
class Dyn:
    """dynamic text: str() of a datum"""
    v: V
    how: str = "str"     # str | raw (already a str) | call:<name>

    def __repr__(self):
        return f"<{self.how}:{self.v}>"


@dataclass(frozen=True)
class CallA:
    """result text of a contract call (child.get_sql(ctx) etc.)"""
    cid: int

    def __repr__(self):
        return f"<call#{self.cid}>"


@dataclass(frozen=True)
class IteA:
    c: object
    a: tuple
    b: tuple

    def __repr__(self):
        return f"Ite({self.c},{list(self.a)},{list(self.b)})"


@dataclass(frozen=True)
class JoinA:
    """sep.join(body(x) for x in seq [if filt]); effects of the body per element are in loop effect lid"""
    sep: tuple
    seq: object         # sequence part(s)
    body: tuple         # shape of one element's text
    lid: int

    def __repr__(self):
        return f"Join({list(self.sep)},{self.seq},{list(self.body)})"


@dataclass(frozen=True)
class QuoteA:
    """format_quotes(inner, q)  ==  q ++ inner ++ q  (contract of utils.format_quotes)"""
    inner: tuple
    q: V

    def __repr__(self):
        return f"Quote({list(self.inner)},{self.q})"


@dataclass(frozen=True)
class OpA:
    """uninterpreted pure string operation: replace/lower/upper/slice/... on shapes/values"""
    op: str
    args: tuple

    def __repr__(self):
        return f"{self.op}{self.args}"


# --- sequence parts
@dataclass(frozen=True)
class Elems:
    items: tuple

    def __repr__(self):
        return f"E{list(self.items)}"


@dataclass(frozen=True)
class PreSeq:
    """unknown finite sequence of symbolic elements"""
    path: str
    spec: str            # element type spec

    def __repr__(self):
        return f"Pre({self.path}:{self.spec})"


@dataclass(frozen=True)
class EnumPart:
    """enumerate(inner): per element of the inner part the pair (index, element)"""
    inner: object

    def __repr__(self):
        return f"Enum({self.inner})"


@dataclass(frozen=True)
class MapPart:
    """[alts(x) for x in seq]: per element of seq, the alternative whose guard holds contributes its items"""
    seq: tuple           # parts iterated
    elem: V              # the symbolic element variable
    alts: tuple          # ((guard z3, (items...)), ...)
    lid: int
    once: bool = False   # search loop: only the first element whose guard holds contributes
    total: bool = False  # exactly one item per element of seq (comprehension without filter and without raise)

    def __repr__(self):
        return f"Map({self.seq},{self.elem},{self.alts})"


# --------------------------------------------------------------------------------- heap

@dataclass
class HObj:
    oid: int
    kind: str                       # inst | list | set | dict
    fresh: bool
    path: str
    cls: ClassInfo | None = None    # exact class for inst when known
    tags: frozenset | None = None   # possible tags for pre-state instances
    attrs: dict = field(default_factory=dict)
    parent: int | None = None       # shallow-copy source (attrs fall through)
    parts: tuple = ()               # for list/set
    items: dict = field(default_factory=dict)   # for dict: K key -> V
    spec: str = ""                  # element spec (pre-state containers)
    deleted: set = field(default_factory=set)

    def clone(self):
        h = HObj(self.oid, self.kind, self.fresh, self.path, self.cls, self.tags, dict(self.attrs), self.parent,
                 self.parts, dict(self.items), self.spec, set(self.deleted))
        return h
