"""The symbolic executor assembled from its parts."""
from __future__ import annotations

from .call import CallMixin
from .core import ExecCore
from .expr import ExprMixin
from .stmt import StmtMixin


class Exec(StmtMixin, CallMixin, ExprMixin, ExecCore):
    pass
