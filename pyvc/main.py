"""CLI:  python -m pyvc.main <property id> --tier quick|thorough   |   --replay <file>   |   --setup

Exit codes: 0 every obligation proved (or refuted-and-known), 1 violation (VIOLATION line printed),
2 undecided obligations remain, 3 checker error."""
from __future__ import annotations

import argparse
import fnmatch
import hashlib
import importlib
import json
import os
import re
import subprocess
import sys
import time
import traceback

from .oblig import (COMMON_ASSUMPTIONS, PROVED, REFUTED, UNKNOWN, UNSUPPORTED, VERIF, Obligation, load_known)

REPLAY_PY = "/venv/bin/python"


def safe(s: str) -> str:
    return re.sub(r"[^A-Za-z0-9_.@-]+", "_", s)[:150]


# scratch runs against another tree (tools/seedcheck.sh) keep their replays and evidence out of /verif
OUTROOT = os.environ.get("PYVC_OUT") or os.path.join(VERIF, "out")


def write_replay(prop: str, ob: Obligation) -> tuple[str, bool, str]:
    """generate the replay script of a refuted obligation, run it on the real code; returns
    (path, reproduced, output)"""
    d = os.path.join(OUTROOT, "replays", prop)
    os.makedirs(d, exist_ok=True)
    path = os.path.join(d, safe(ob.key) + ".py")
    w = ob.witness or {}
    fam = w.get("family")
    body = ["import sys", f"sys.path.insert(0, {VERIF!r})", "from replaylib import oracles", "w = None"]
    short = lambda q: q.replace("pypika_tortoise.", "")
    if fam == "frame" or fam == "frame-result":
        body.append(f"w = oracles.frame({short(w['func'])!r}, {short(w['cls'])!r})")
    elif fam == "pure":
        body.append(f"w = oracles.purity({short(w['func'])!r}, {short(w['cls'])!r})")
        body.append(f"w = w or oracles.hashseed({short(w['cls'])!r})")
    elif fam == "call":
        body.append(f"w = oracles.{w['oracle']}(*{w.get('args', [])!r})")
    body += ["if w:", "    print('FAILING INPUT:', w)", "    sys.exit(1)",
             "print('no failing input found by the witness search')", "sys.exit(0)"]
    header = [f"# replay of refuted obligation {ob.full_key}", f"# kind: {ob.kind}   function: {ob.func}",
              "# contract clause: " + " ".join((ob.detail or "").split()), "# verifier output:"] + \
             ["#   " + ln for ln in (ob.reason or "").splitlines()] + \
             ["# run: cd /verif && /venv/bin/python " + os.path.relpath(path, VERIF), ""]
    open(path, "w").write("\n".join(header + body) + "\n")
    out, rc = "", 0
    if fam:
        try:
            r = subprocess.run([REPLAY_PY, path], capture_output=True, text=True, timeout=300,
                               env=dict(os.environ, PYTHONDONTWRITEBYTECODE="1"))
            out, rc = (r.stdout + r.stderr).strip(), r.returncode
        except subprocess.TimeoutExpired:
            out, rc = "replay timed out", 0
    with open(path, "a") as f:
        f.write("\n# replay output at generation time:\n" + "".join("#   " + ln + "\n" for ln in out.splitlines()))
    # a failing input is reproduced only when the oracle says so (a crash of the replay script is not a witness)
    return path, (rc == 1 and "FAILING INPUT:" in out), out


def match_known(ob: Obligation, known: dict):
    for k in known.get("open", []):
        if k.get("property") != ob.prop:
            continue
        pat = "^" + ".*".join(re.escape(p) for p in k["key"].split("*")) + "$"     # only '*' is a wildcard
        if re.match(pat, ob.key):
            return k
    return None


def run_property(prop: str, tier: str) -> int:
    t0 = time.time()
    seed = int(os.environ.get("VERIF_SEED", "0") or 0)
    mod = importlib.import_module(f"pyvc.props.{prop.lower()}")
    try:
        obs, meta = mod.generate(tier)
    except Exception:
        traceback.print_exc()
        print(f"CHECKER-ERROR property={prop}")
        return 3
    crashes = [o for o in obs if isinstance(o, tuple)]
    if crashes:
        for c in crashes[:5]:
            print("CHECKER-ERROR", c[1], c[2][-1500:])
        return 3
    if not obs:
        print(f"CHECKER-ERROR property={prop}: zero obligations generated (vacuous)")
        return 3
    minimum = getattr(mod, "MIN_OBLIGATIONS", 1)
    if len(obs) < minimum:
        print(f"CHECKER-ERROR property={prop}: only {len(obs)} obligations generated, expected >= {minimum}")
        return 3
    known = load_known()
    violations, known_hits, undecided = [], [], []
    for ob in obs:
        if ob.status == REFUTED:
            k = match_known(ob, known)
            if k is not None:
                known_hits.append((ob, k))
            else:
                violations.append(ob)
        elif ob.status in (UNKNOWN, UNSUPPORTED):
            undecided.append(ob)
    rc = 0
    printed = set()
    for ob, k in known_hits:
        if k["key"] not in printed:
            printed.add(k["key"])
            # the listed finding is reported while its obligation is still refuted; the replay says whether the
            # witness search reproduces a failing input on the real code
            suffix = ""
            if ob.witness and ob.witness.get("family"):
                _path, reproduced, _out = write_replay(prop, ob)
                if not reproduced:
                    suffix = " [obligation refuted; no-failing-input-found by the witness search]"
            print(f"KNOWN-FINDING: property={prop} {k['what']}{suffix}")
    vio_out = []
    for ob in violations[:12]:
        path, reproduced, out = write_replay(prop, ob)
        rel = os.path.relpath(path, VERIF)
        line = f"VIOLATION property={prop} replay={rel}"
        if not reproduced:
            line += " no-failing-input-found"
        print(line)
        print(f"  obligation {ob.key} [{ob.kind}] {ob.detail}")
        if out:
            print("  " + out.splitlines()[0][:400])
        vio_out.append({"key": ob.key, "replay": rel, "reproduced": reproduced})
        rc = 1
    for ob in violations[12:60]:
        print(f"VIOLATION property={prop} replay=- no-failing-input-found (replay not generated: too many) obligation={ob.key}")
    if len(violations) > 60:
        print(f"  ... and {len(violations) - 60} more refuted obligations")
    for ob in undecided[:20]:
        print(f"UNDECIDED property={prop} obligation={ob.key} ({ob.status}: {(ob.reason or '')[:200]})")
    if undecided and rc == 0:
        rc = 2
    if tier == "thorough":
        extra_rc = thorough_extras(prop, obs, meta)
        rc = rc or extra_rc
    write_evidence(prop, tier, seed, obs, meta, known_hits, violations, undecided, time.time() - t0, mod)
    n_ok = sum(1 for o in obs if o.status == PROVED)
    print(f"{prop} [{tier}]: {len(obs)} obligations, {n_ok} proved, {len(known_hits)} refuted (known findings), "
          f"{len(violations)} refuted (new), {len(undecided)} undecided, {time.time() - t0:.1f}s")
    return rc


def thorough_extras(prop, obs, meta) -> int:
    """thorough tier only:
    (1) every distinct witness search attached to a PROVED obligation is run on the real code (bounded differential
        cross-check of the verifier: a failing input for a discharged obligation is reported as a violation with that
        input - it is a real failing input of the property - and points at an unsound contract or engine);
    (2) the Lean lemmas the property's argument uses are re-checked;
    (3) mutation self-test: each seeded change recorded under seeded/<prop>-* is applied to a scratch copy of the
        current tree and the quick check must report a violation there (recorded in the evidence, not a verdict)."""
    import glob
    import shutil
    import tempfile
    rc = 0
    extra = meta.setdefault("coverage_extra", {})
    # (1)
    calls, owner = [], {}
    for ob in obs:
        if isinstance(ob, tuple) or ob.status != PROVED or not ob.witness or ob.witness.get("family") != "call":
            continue
        if ob.witness.get("no_crosscheck"):
            continue        # a copy of another property's obligation: cross-checked (and its findings listed) there
        key = (ob.witness["oracle"], json.dumps(ob.witness.get("args", []), sort_keys=True, default=str))
        if key not in owner:
            owner[key] = ob
            calls.append([ob.witness["oracle"], ob.witness.get("args", [])])
    calls = calls[:400]
    # failing inputs that belong to refuted obligations of this run (listed findings or reported violations): the
    # witness searches are shared between obligations, so the same input may come back for a discharged one
    rcalls, seen_r = [], set()
    for ob in obs:
        if not isinstance(ob, tuple) and ob.status == REFUTED and ob.witness and ob.witness.get("family") == "call":
            key = (ob.witness["oracle"], json.dumps(ob.witness.get("args", []), sort_keys=True, default=str))
            if key not in seen_r:
                seen_r.add(key)
                rcalls.append([ob.witness["oracle"], ob.witness.get("args", [])])
    explained = set()
    if rcalls and calls:
        try:
            pr = subprocess.run([REPLAY_PY, os.path.join(VERIF, "replaylib", "batch.py")], input=json.dumps(rcalls[:200]),
                                capture_output=True, text=True, timeout=3000,
                                env=dict(os.environ, PYTHONDONTWRITEBYTECODE="1"))
            explained = {w for w in json.loads(pr.stdout) if w}
        except Exception:
            pass
    found = []
    if calls:
        try:
            pr = subprocess.run([REPLAY_PY, os.path.join(VERIF, "replaylib", "batch.py")], input=json.dumps(calls),
                                capture_output=True, text=True, timeout=3000,
                                env=dict(os.environ, PYTHONDONTWRITEBYTECODE="1"))
            res = json.loads(pr.stdout)
        except Exception as e:
            res = []
            extra["crosscheck_error"] = repr(e)
        known = load_known()
        for (name, args), w in zip(calls, res):
            if w and w not in explained:
                ob = owner[(name, json.dumps(args, sort_keys=True, default=str))]
                if match_known(ob, known) is not None:
                    continue
                # the same witness may belong to a listed finding of this property (shared oracle)
                if any(k.get("property") == prop and k.get("oracle") == name for k in known.get("open", [])):
                    continue
                found.append((ob, w))
    extra["crosscheck_witness_searches"] = len(calls)
    extra["crosscheck_failing_inputs"] = len(found)
    for ob, w in found[:10]:
        path, reproduced, out = write_replay(prop, ob)
        print(f"VIOLATION property={prop} replay={os.path.relpath(path, VERIF)}")
        print(f"  cross-check: obligation {ob.key} was discharged but the witness search finds: {w[:300]}")
        rc = 1
    # (2)
    lemmas = {"C01": ["Frame.lean"], "C15": ["Frame.lean"], "C05": ["EscSql.lean", "EscMysql.lean"]}.get(prop, [])
    lean_res = {}
    for f in lemmas:
        try:
            pr = subprocess.run(["lean", os.path.join(VERIF, "lemmas", f)], capture_output=True, text=True, timeout=900)
            lean_res[f] = "ok" if pr.returncode == 0 and "error" not in (pr.stdout + pr.stderr) else \
                (pr.stdout + pr.stderr)[-300:]
        except Exception as e:
            lean_res[f] = repr(e)
    if lemmas:
        extra["lean_lemmas"] = lean_res
        for f, v in lean_res.items():
            if v != "ok":
                print(f"UNDECIDED property={prop} lemma {f}: {v}")
                rc = rc or 2
    # (3)
    results = {}
    repo_root = os.environ.get("PYVC_REPO", "/repo")
    if "PYVC_OUT" not in os.environ:            # not inside a self-test already
        for d in sorted(glob.glob(os.path.join(VERIF, "seeded", prop + "-*"))):
            wt = tempfile.mkdtemp(prefix="pyvc_selftest_")
            try:
                shutil.rmtree(wt)
                shutil.copytree(repo_root, wt, ignore=shutil.ignore_patterns(".git", "__pycache__", "*.pyc"))
                ap = subprocess.run(["git", "apply", "--unsafe-paths", "--directory", wt, os.path.join(d, "patch.diff")],
                                    cwd="/", capture_output=True, text=True)
                if ap.returncode != 0:
                    ap = subprocess.run(["patch", "-p1", "-s", "-i", os.path.join(d, "patch.diff")], cwd=wt,
                                        capture_output=True, text=True)
                if ap.returncode != 0:
                    results[os.path.basename(d)] = "patch does not apply to the current tree"
                    continue
                pr = subprocess.run([sys.executable, "-m", "pyvc.main", prop, "--tier", "quick"], cwd=VERIF,
                                    capture_output=True, text=True, timeout=3000,
                                    env=dict(os.environ, PYVC_REPO=wt, PYVC_OUT=os.path.join(wt, ".pyvc_out"),
                                             PYTHONPATH=f"{VERIF}:{wt}"))
                nv = sum(1 for ln in pr.stdout.splitlines() if ln.startswith("VIOLATION"))
                results[os.path.basename(d)] = f"exit {pr.returncode}, {nv} VIOLATION line(s)"
            except Exception as e:
                results[os.path.basename(d)] = f"self-test failed to run: {e!r}"
            finally:
                shutil.rmtree(wt, ignore_errors=True)
        extra["mutation_selftest"] = results
        missed = [k for k, v in results.items() if v.startswith("exit 0")]
        print(f"{prop} [thorough]: cross-checked {len(calls)} witness searches ({len(found)} failing inputs), "
              f"lemmas {lean_res or 'none'}, mutation self-test {results or 'no seeds'}"
              f"{' MISSED: ' + str(missed) if missed else ''}")
    return rc


def write_evidence(prop, tier, seed, obs, meta, known_hits, violations, undecided, wall, mod):
    # bounded cross-checks of axioms about external functions are assumptions with a stated bound, not obligations
    axiom_checks = [o for o in obs if o.kind.endswith("-bounded")]
    obs = [o for o in obs if not o.kind.endswith("-bounded")]
    n = len(obs)
    proved = [o for o in obs if o.status == PROVED]
    bounded = [o for o in obs if o.bounded]
    all_proved = len(proved) == n and not bounded
    by_kind, by_backend = {}, {}
    for o in obs:
        by_kind.setdefault(o.kind, {}).setdefault(o.status, 0)
        by_kind[o.kind][o.status] += 1
        by_backend[o.backend] = by_backend.get(o.backend, 0) + 1
    samples = []
    seen_kinds = set()
    for o in obs:
        if o.kind not in seen_kinds and len(samples) < 12:
            seen_kinds.add(o.kind)
            samples.append({"obligation": o.key, "kind": o.kind, "status": o.status, "clause": o.detail[:400],
                            "backend": o.backend})
    level = "proof" if all_proved else "other"
    cov = {
        "obligations": n, "discharged": len(proved),
        "refuted_known": len(known_hits), "refuted_new": len(violations), "undecided": len(undecided),
        "bounded_standins": [{"obligation": o.key, "bound": o.bounded} for o in bounded][:50],
        "by_kind": by_kind, "by_backend": by_backend,
        "solver_seconds": round(sum(o.solver_s for o in obs), 3),
        "checker_cmd": f"./check {prop} --tier {tier}",
        "trusted_base": meta.get("trusted", []) + ["pyvc VC generator (this repository)", "z3 python API",
                                                   "contracts/invariants.py slot types (assumed for pre-state)"],
        "functions_under_contract": meta.get("functions", [])[:400],
        "n_functions_under_contract": len(meta.get("functions", [])),
        "closed_world": meta.get("closed_world", []),
        "samples": samples,
        "axiom_crosschecks_bounded": [{"axiom": o.key, "bound": o.bounded, "status": o.status, "what": o.detail}
                                      for o in axiom_checks],
        "explanation": (f"contract-based deductive check: {len(proved)} of {n} obligations discharged, "
                        f"{len(known_hits)} refuted and listed as known findings, {len(violations)} refuted (new), "
                        f"{len(undecided)} undecided, {len(bounded)} bounded stand-ins (not counted as proved)"),
        "evaluations": n, "distinct_nontrivial": len({o.key for o in obs}),
        "rule": "one obligation per (function under contract, concrete receiver class, obligation kind, semantic "
                "site); distinct = distinct obligation keys",
    }
    cov.update(meta.get("coverage_extra", {}))
    ev = {"property_id": prop, "tier": tier, "seed": seed, "level": level, "coverage": cov,
          "assumptions": COMMON_ASSUMPTIONS + meta.get("assumptions", []),
          "wall_s": round(wall, 2), "violations": len(violations)}
    evdir = os.path.join(VERIF, "evidence") if "PYVC_OUT" not in os.environ else os.path.join(OUTROOT, "evidence")
    os.makedirs(evdir, exist_ok=True)
    json.dump(ev, open(os.path.join(evdir, f"{prop}.json"), "w"), indent=1, default=str)


def main():
    ap = argparse.ArgumentParser()
    ap.add_argument("prop", nargs="?")
    ap.add_argument("--tier", default=os.environ.get("VERIF_TIER", "quick"))
    ap.add_argument("--replay")
    ap.add_argument("--setup", action="store_true")
    a = ap.parse_args()
    if a.setup:
        import z3
        from .front import repo
        repo()
        print("setup ok: z3", z3.get_version_string())
        return 0
    if a.replay:
        r = subprocess.run([REPLAY_PY, a.replay])
        return r.returncode
    try:
        return run_property(a.prop, a.tier)
    except Exception:
        traceback.print_exc()
        return 3


if __name__ == "__main__":
    sys.exit(main())
