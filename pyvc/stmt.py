"""Symbolic executor, part 4: statements, if-merging, loop summaries."""
from __future__ import annotations

import ast

import z3

from .expr import cat, lit
from .front import FuncInfo
from .smt import FALSE, TRUE, conj, disj
from .state import Effect, Frame, MergeAbort, PathEnd, Restart, Unsupported
from .values import (B, CallA, Dyn, Elems, Fn, HObj, I, IteA, IteV, JoinA, K, Lit, MapPart, Obj, OpA, PreSeq,
                     QuoteA, S, Sym, Tu, V)


def assigned_names(stmts) -> set:
    out = set()
    for st in stmts:
        for n in ast.walk(st):
            if isinstance(n, ast.Name) and isinstance(n.ctx, ast.Store):
                out.add(n.id)
    return out


def has_jump(stmts) -> bool:
    for st in stmts:
        for n in ast.walk(st):
            if isinstance(n, (ast.Return, ast.Raise, ast.Break, ast.Continue, ast.Yield, ast.YieldFrom)):
                return True
    return False


def only_returns(stmts) -> bool:
    """the only jumps are `return`s (break/continue inside nested loops are local to those loops)"""
    def walk(nodes, in_loop):
        for n in nodes:
            if isinstance(n, (ast.Raise, ast.Yield, ast.YieldFrom, ast.Try)):
                return False
            if isinstance(n, (ast.Break, ast.Continue)) and not in_loop:
                return False
            if isinstance(n, (ast.FunctionDef, ast.Lambda)):
                continue
            inner = in_loop or isinstance(n, (ast.For, ast.While))
            if not walk(list(ast.iter_child_nodes(n)), inner):
                return False
        return True
    return walk(list(stmts), False)


class StmtMixin:
    def exec_block(self, stmts):
        for st in stmts:
            self.exec_stmt(st)

    def exec_stmt(self, st):
        m = getattr(self, "st_" + type(st).__name__, None)
        if m is None:
            raise Unsupported(f"statement {type(st).__name__} (line {st.lineno})")
        self.cur_line = st.lineno
        m(st)

    def st_Pass(self, st):
        pass

    def st_Break(self, st):
        raise PathEnd("break")

    def st_Continue(self, st):
        raise PathEnd("continue")

    def st_Expr(self, st):
        if isinstance(st.value, ast.Constant):
            return                      # docstring: dropped
        if isinstance(st.value, (ast.Yield, ast.YieldFrom)):
            y = self.frames[-1].locals["$yield"]
            h = self.hobj(y)
            if isinstance(st.value, ast.Yield):
                h.parts = self.norm_parts(h.parts + (Elems((self.eval(st.value.value),)),))
            else:
                h.parts = self.norm_parts(h.parts + tuple(self.iter_parts(self.eval(st.value.value))))
            return
        self.eval(st.value)

    def st_Return(self, st):
        raise PathEnd("return", self.eval(st.value) if st.value is not None else K(None))

    def st_Raise(self, st):
        if st.exc is None:
            raise PathEnd("raise", ("reraise", ""))
        v = self.eval(st.exc)
        if isinstance(v, Fn) and v.kind == "exception":
            t = v.target
            name = t.__name__ if isinstance(t, type) else t.name
            raise PathEnd("raise", (name, v.self_))
        if isinstance(v, Fn) and v.kind == "class":
            raise PathEnd("raise", (v.target.name, K("")))
        if isinstance(v, K) and isinstance(v.v, type):
            raise PathEnd("raise", (v.v.__name__, K("")))
        raise PathEnd("raise", ("<dynamic>", v))

    def st_Import(self, st):
        import importlib
        for a in st.names:
            self.frames[-1].locals[(a.asname or a.name).split(".")[0]] = K(importlib.import_module(a.name.split(".")[0]))

    def st_ImportFrom(self, st):
        mod = self.frames[-1].module
        target = self.repo._resolve_relative(mod, st)
        import importlib
        m = importlib.import_module(target)
        for a in st.names:
            self.frames[-1].locals[a.asname or a.name] = self.lift_live(getattr(m, a.name))

    def st_FunctionDef(self, st):
        fr = self.frames[-1]
        self.frames[-1].locals[st.name] = Fn("closure", st, fr, fr.locals)

    def st_Assert(self, st):
        if not self.decide(self.truth(self.eval(st.test))):
            raise PathEnd("raise", ("AssertionError", K("")))

    def st_Delete(self, st):
        for t in st.targets:
            if isinstance(t, ast.Name):
                self.frames[-1].locals.pop(t.id, None)
            elif isinstance(t, ast.Attribute):
                o = self.eval(t.value)
                self.check_merge_write(o)
                self.log_write(o, "delattr", t.attr, None, st.lineno)
                if isinstance(o, Obj):
                    self.hobj(o).attrs.pop(t.attr, None)
                    self.hobj(o).deleted.add(t.attr)
            elif isinstance(t, ast.Subscript):
                o = self.eval(t.value)
                self.check_merge_write(o)
                self.log_write(o, "delitem", "", None, st.lineno)
            else:
                raise Unsupported("del target")

    # ------------------------------------------------------------------ assignment
    def st_Assign(self, st):
        v = self.eval(st.value)
        for t in st.targets:
            self.assign(t, v, st.lineno)

    def st_AnnAssign(self, st):
        if st.value is not None:
            self.assign(st.target, self.eval(st.value), st.lineno)

    def assign(self, t, v, lineno=0):
        if isinstance(t, ast.Name):
            self.frames[-1].locals[t.id] = v
        elif isinstance(t, ast.Attribute):
            self.set_attr(self.eval(t.value), t.attr, v, lineno)
        elif isinstance(t, (ast.Tuple, ast.List)):
            items = self.unpack(v, len(t.elts))
            for tt, vv in zip(t.elts, items):
                self.assign(tt, vv, lineno)
        elif isinstance(t, ast.Subscript):
            o = self.eval(t.value)
            idx = self.eval(t.slice) if not isinstance(t.slice, ast.Slice) else None
            if isinstance(o, Sym):
                o = self.as_obj(o)
            self.check_merge_write(o)
            self.log_write(o, "setitem", "", v, lineno)
            if isinstance(o, Obj):
                h = self.hobj(o)
                if h.kind == "dict":
                    h.items[self.dict_key(idx)] = v
                elif h.kind == "list":
                    # element replacement: contents become unknown except for the common `xs[-1] = e` case
                    done = False
                    if isinstance(idx, K) and idx.v == -1 and h.parts and isinstance(h.parts[-1], Elems):
                        last = h.parts[-1]
                        h.parts = self.norm_parts(h.parts[:-1] + (Elems(last.items[:-1] + (v,)),))
                        done = True
                    if not done:
                        lid = self.new_lid()
                        h.parts = (PreSeq(f"{h.path}.setitem#{lid}", h.spec or "any"),)
        else:
            raise Unsupported("assignment target")

    def st_AugAssign(self, st):
        t = st.target
        if isinstance(t, ast.Name):
            cur = self.lookup_name(t.id)
            rhs = self.eval(st.value)
            self.frames[-1].locals[t.id] = self.aug(cur, st.op, rhs, st.lineno)
        elif isinstance(t, ast.Attribute):
            o = self.eval(t.value)
            cur = self.get_attr(o, t.attr)
            rhs = self.eval(st.value)
            new = self.aug(cur, st.op, rhs, st.lineno)
            # in-place list += leaves the binding unchanged but python still re-stores the attribute
            self.set_attr(o, t.attr, new, st.lineno)
        else:
            raise Unsupported("augmented assignment target")

    def aug(self, cur, op, rhs, lineno):
        if isinstance(cur, Sym) and cur.tags and cur.tags <= {"list", "set", "NoneType"}:
            cur = self.as_obj(cur)
        if isinstance(cur, Obj) and self.hobj(cur).kind in ("list", "set") and isinstance(op, (ast.Add, ast.BitOr)):
            # list += x  is an in-place extend of the list object
            self.check_merge_write(cur)
            h = self.hobj(cur)
            self.log_write(cur, "extend(+=)", "", rhs, lineno)
            h.parts = self.norm_parts(h.parts + tuple(self.iter_parts(rhs)))
            return cur
        return self.binop(op, cur, rhs)

    # ------------------------------------------------------------------ if
    def st_If(self, st):
        t = z3.simplify(self.truth(self.eval(st.test)))
        if not (z3.is_true(t) or z3.is_false(t)):
            if self.smt.implied(self.st.pc, t):
                t = TRUE
            elif self.smt.implied(self.st.pc, z3.Not(t)):
                t = FALSE
        if z3.is_true(t):
            return self.exec_block(st.body)
        if z3.is_false(t):
            return self.exec_block(st.orelse)
        if not has_jump(st.body) and not has_jump(st.orelse):
            if self.merge_if(t, st):
                return
        elif only_returns(st.body) and only_returns(st.orelse):
            fr = self.frames[-1]
            key = (fr.func.qual if fr.func else "?", st.lineno)
            if fr.loop_depth == 0 and self.merge_depth == fr.entry_merge_depth and key not in self.nomerge_ifs \
                    and self.dec is not None:
                if self.merge_if_ret(t, st, key):
                    return
        if self.decide(t):
            self.exec_block(st.body)
        else:
            self.exec_block(st.orelse)

    def merge_if(self, t, st) -> bool:
        fr = self.frames[-1]
        before = dict(fr.locals)

        def arm(stmts):
            def run():
                self.exec_block(stmts)
                return K(None)
            return run

        r = self.try_merge(t, arm(st.body), arm(st.orelse), want_locals=True)
        fr.locals = before
        if r is None:
            return False
        _v, merged = r
        fr.locals = merged
        return True

    def merge_if_ret(self, t, st, key) -> bool:
        """if-statement whose arms may `return`: explore both arms, join; returning paths become a pending
        (guarded) early return of the frame, the others continue under the negated guard"""
        fr = self.frames[-1]
        before = dict(fr.locals)
        base = self.st
        nb, ne, nw = len(base.pc), len(base.effects), len(base.writes)
        flat = []
        for cond, stmts in ((t, st.body), (z3.Not(t), st.orelse)):
            start = base.snapshot()
            self.push_cond(start, cond)
            if not self.smt.feasible(start.pc):
                continue

            def run(stmts=stmts):
                self.exec_block(stmts)
                return None

            outs = self.sub_explore(run, start, limit=64)
            if outs is None or any(o.status not in ("normal", "return") for o in outs):
                fr.locals = before
                return False
            flat.extend(outs)
        fr.locals = before
        if not flat:
            raise PathEnd("infeasible")
        rets = [o for o in flat if o.status == "return"]
        norms = [o for o in flat if o.status == "normal"]
        for o in flat:
            g = conj(o.state.pc[nb:])
            o.guard = g
            self.adopt_heap(base, o.state)
            for ef in o.state.effects[ne:]:
                ef.guard = g if ef.guard is None else z3.And(g, ef.guard)
            base.effects.extend(o.state.effects[ne:])
            base.writes.extend(o.state.writes[nw:])
        rv = None
        for o in reversed(rets):
            v = o.value if o.value is not None else K(None)
            rv = v if rv is None else self.ite_val(o.guard, v, rv)
        if not norms:
            raise PathEnd("return", rv)
        cur = None
        for o in reversed(norms):
            cur = dict(o.locals) if cur is None else self.merge_locals(o.guard, o.locals, cur)
        fr.locals = cur
        if rets:
            rg = z3.simplify(disj([o.guard for o in rets]))
            ng = z3.Not(rg)
            self.push_cond(base, ng)
            fr.pending.append((rg, rv, len(base.effects), key))
        return True

    # ------------------------------------------------------------------ try
    def st_Try(self, st):
        if st.finalbody:
            # try ... finally: the final block runs on every exit of the protected part
            inner = ast.Try(body=st.body, handlers=st.handlers, orelse=st.orelse, finalbody=[])
            ast.copy_location(inner, st)
            try:
                if st.handlers or st.orelse:
                    self.st_Try(inner)
                else:
                    self.exec_block(st.body)
            except PathEnd as pe:
                if pe.kind == "infeasible":
                    raise
                self.exec_block(st.finalbody)
                raise
            self.exec_block(st.finalbody)
            return
        try:
            self.exec_block(st.body)
            if st.orelse:
                # the else block is outside the protection of the handlers
                try:
                    self.exec_block(st.orelse)
                except PathEnd as pe2:
                    pe2.unprotected = True
                    raise
        except PathEnd as pe:
            if getattr(pe, "unprotected", False):
                raise
            if pe.kind != "raise":
                raise
            exname = pe.value[0]
            for h in st.handlers:
                names = []
                if h.type is None:
                    names = None
                elif isinstance(h.type, ast.Name):
                    names = [h.type.id]
                elif isinstance(h.type, ast.Tuple):
                    names = [x.id for x in h.type.elts]
                if names is None or exname in names or "Exception" in names:
                    if h.name:
                        self.frames[-1].locals[h.name] = Sym(self.fresh_name("exc"), None)
                    self.exec_block(h.body)
                    return
            raise

    def st_While(self, st):
        raise Unsupported("while loop")

    def st_With(self, st):
        raise Unsupported("with statement")

    # ------------------------------------------------------------------ for
    def st_For(self, st):
        if st.orelse:
            raise Unsupported("for/else")
        seq = self.eval(st.iter)
        parts = self.iter_parts(seq)
        for p in parts:
            if isinstance(p, Elems):
                for item in p.items:
                    self.bind_target(st.target, item)
                    try:
                        self.frames[-1].loop_depth += 1
                        try:
                            self.exec_block(st.body)
                        finally:
                            self.frames[-1].loop_depth -= 1
                    except PathEnd as pe:
                        if pe.kind == "break":
                            return
                        if pe.kind == "continue":
                            continue
                        raise
            else:
                if self.loop_summary(st, p):
                    return

    def loop_summary(self, st, p) -> bool:
        """summarise the iteration over a symbolic sequence part; returns True when the loop was left by break"""
        fr = self.frames[-1]
        elem, lid = self.elem_of(p)
        base = self.st
        names = sorted(assigned_names(st.body) - assigned_names([ast.Expr(st.target)]) if False else
                       assigned_names(st.body))
        tnames = {n.id for n in ast.walk(st.target) if isinstance(n, ast.Name)}
        before = dict(fr.locals)
        # accumulators: fresh lists reachable from locals / strings in locals
        res = []

        def run():
            fr.locals = dict(before)
            self.bind_target(st.target, elem)
            self.exec_block(st.body)
            return K(None)

        self.in_loop += 1
        fr.loop_depth += 1
        try:
            outs = self.explore(run, start=base)
            # locals of each outcome: explore restores frames, so recompute per outcome below
        finally:
            self.in_loop -= 1
            fr.loop_depth -= 1
        # explore() ran `run` on copies of the frame list; but fr.locals was rebound inside run: capture per outcome
        # by re-running is expensive, so run() stores locals in the outcome state notes instead.
        return self.join_loop(st, p, elem, lid, base, before, outs)

    def join_loop(self, st, p, elem, lid, base, before, outs) -> bool:
        fr = self.frames[-1]
        nb = len(base.pc)
        ne = len(base.effects)
        nw = len(base.writes)
        body_eff = []
        live = []
        for o in outs:
            g = conj(o.state.pc[nb:])
            o.guard = g
            if o.status == "raise":
                base.effects.append(Effect("raise-site", guard=g, args=(o.value,), lid=lid, site="loop",
                                           elem=elem, seq=p))
                continue
            if o.status == "return":
                # the function may return from inside the loop when some element takes this path
                ex = self.smt.atom(f"ex!loop{lid}.ret{len(live)}")
                if self.decide(ex):
                    self.st.pc.append(g)
                    self.adopt_heap(self.st, o.state)
                    self.st.effects.extend(o.state.effects[ne:])
                    raise PathEnd("return", o.value)
                continue
            live.append(o)
            body_eff.append((g, o.state.effects[ne:]))
        for o in live:
            self.adopt_heap(base, o.state)
            for w in o.state.writes[nw:]:
                w.in_loop = True
                base.writes.append(w)
        base.effects.append(Effect("loop", lid=lid, seq=p, elem=elem, body=body_eff))
        # ---- locals
        locs = [o.locals for o in live]
        brk = [o.status == "break" for o in live]
        tnames = {n.id for n in ast.walk(st.target) if isinstance(n, ast.Name)}
        new_locals = dict(before)
        changed = set()
        for o in live:
            for k, v in o.locals.items():
                if k in tnames:
                    continue
                if k not in before or before[k] != v:
                    changed.add(k)
        for name in sorted(changed):
            old = before.get(name)
            vals = [loc.get(name, old) for loc in locs]
            # string accumulator
            if isinstance(old, S) and all(isinstance(v, S) and v.atoms[:len(old.atoms)] == old.atoms or v == old
                                         for v in vals):
                alts = []
                for o, v in zip(live, vals):
                    delta = S(v.atoms[len(old.atoms):]) if v != old else lit("")
                    alts.append((o.guard, delta))
                new_locals[name] = cat(old, S((JoinA((), (p,), self.alts_shape(alts).atoms, lid),)))
                continue
            # assigned only on paths that leave the loop (search loop): exists-summary
            if all((v == old) or b for v, b in zip(vals, brk)):
                cur = old
                for i, (o, v) in enumerate(zip(live, vals)):
                    if v != old and cur is not None:
                        ex = self.smt.atom(f"ex!loop{lid}.brk{i}")
                        self.smt.axioms.append(z3.Implies(self.parts_len((p,)) == 0, z3.Not(ex)))
                        cur = self.ite_val(ex, v, cur)
                    elif v != old:
                        cur = v
                new_locals[name] = cur
                continue
            # boolean flag set on some iterations
            if all(isinstance(v, (K, B)) for v in vals) and isinstance(old, (K, B)):
                a = self.smt.atom(f"loop{lid}.{name}")
                new_locals[name] = B(a)
                continue
            new_locals[name] = Sym(f"loop{lid}.{name}", None)
        fr.locals = new_locals
        # ---- heap: containers appended to, attributes rebound
        self.join_heap(p, elem, lid, base, live)
        return False

    def join_heap(self, p, elem, lid, base, live):
        for oid, h0 in list(base.heap.items()):
            versions = [o.state.heap.get(oid) for o in live]
            if any(v is None for v in versions):
                continue
            if h0.kind in ("list", "set"):
                if all(v.parts == h0.parts for v in versions):
                    continue
                if all(v.parts[:len(h0.parts)] == h0.parts or self._ext(h0.parts, v.parts) is not None
                       for v in versions):
                    alts = []
                    for o, v in zip(live, versions):
                        d = self._ext(h0.parts, v.parts)
                        items = tuple(i for part in d for i in (part.items if isinstance(part, Elems) else (part,)))
                        alts.append((o.guard, items))
                    once = all(o.status == "break" or not it for o, (_g, it) in zip(live, alts))
                    h0.parts = self.norm_parts(h0.parts + (MapPart((p,), elem, tuple(alts), lid, once),))
                else:
                    h0.parts = (PreSeq(f"{h0.path}.loop{lid}", h0.spec or "any"),)
            elif h0.kind == "inst":
                names = set()
                for v in versions:
                    for k, val in v.attrs.items():
                        if h0.attrs.get(k, None) != val:
                            names.add(k)
                for k in sorted(names):
                    old = h0.attrs.get(k)
                    vals = [v.attrs.get(k, old) for v in versions]
                    if old is not None and all(isinstance(x, (K, B)) for x in vals + [old]):
                        fs = []
                        cur = old
                        for i, (o, x) in enumerate(zip(live, vals)):
                            if x != old:
                                ex = self.smt.atom(f"ex!loop{lid}.{h0.path}.{k}.{i}")
                                self.smt.axioms.append(z3.Implies(self.parts_len((p,)) == 0, z3.Not(ex)))
                                cur = self.ite_val(ex, x, cur)
                        h0.attrs[k] = cur
                        continue
                    # rebound to objects: havoc, keeping ownership (all fresh -> a fresh havoc container)
                    objs = [x for x in vals if isinstance(x, Obj)]
                    if objs and len(objs) == len(vals):
                        hs = [self._find(o2, x) for o2, x in zip(live, vals)]
                        kinds = {hh.kind for hh in hs}
                        allfresh = all(hh.fresh for hh in hs)
                        if len(kinds) == 1 and kinds <= {"list", "set"}:
                            spec = hs[0].spec or h0.attrs.get(k) and "" or "any"
                            no = self.alloc(kinds.pop(), allfresh, f"{h0.path}.{k}.loop{lid}",
                                            parts=(PreSeq(f"{h0.path}.{k}.loop{lid}", spec or "any"),), spec=spec)
                            base.heap[no.oid] = self.st.heap[no.oid]
                            h0.attrs[k] = no
                            continue
                    if isinstance(old, I) or all(isinstance(x, (I, K)) for x in vals):
                        h0.attrs[k] = I(self.smt.int(f"{h0.path}.{k}.loop{lid}"))
                        continue
                    h0.attrs[k] = Sym(f"{h0.path}.{k}.loop{lid}", None)

    def _find(self, o, ref):
        return o.state.heap[ref.oid]

    def _ext(self, old, new):
        """new == old ++ delta on the level of parts (merging of adjacent Elems taken into account)"""
        old = list(old)
        new = list(new)
        i = 0
        while i < len(old):
            if i >= len(new):
                return None
            if old[i] == new[i]:
                i += 1
                continue
            if i == len(old) - 1 and isinstance(old[i], Elems) and isinstance(new[i], Elems) and \
                    new[i].items[:len(old[i].items)] == old[i].items:
                rest = new[i].items[len(old[i].items):]
                return ([Elems(rest)] if rest else []) + new[i + 1:]
            return None
        return new[len(old):]
