"""Front end: reads the real source of /repo/pypika_tortoise with ``ast`` on every run, builds the
class table (bases, MRO, methods, decorators, class attributes) and cross-checks it against the
imported live package.  Nothing under /repo is copied or rewritten.

What the front end drops: type annotations (kept only as hints nobody trusts), docstrings,
``TYPE_CHECKING`` blocks, ``@overload`` stubs, ``# type:`` comments.  Nothing else.
"""
from __future__ import annotations

import ast
import hashlib
import importlib
import os
import sys
from dataclasses import dataclass, field

REPO = os.environ.get("PYVC_REPO", "/repo")
PKG = "pypika_tortoise"


class CheckerError(Exception):
    """internal inconsistency of the checker (exit 3) - never a verdict"""


@dataclass
class FuncInfo:
    name: str
    qual: str                      # e.g. pypika_tortoise.terms.Field.get_sql
    node: ast.FunctionDef
    module: "ModInfo"
    cls: "ClassInfo | None"
    decorators: list[str]
    kind: str                      # method | static | class | property | function
    src_hash: str = ""

    @property
    def short(self) -> str:
        return self.qual[len(PKG) + 1:]

    def __hash__(self):
        return hash(self.qual)

    def __eq__(self, o):
        return isinstance(o, FuncInfo) and o.qual == self.qual

    def __repr__(self):
        return f"<Func {self.short}>"


@dataclass
class ClassInfo:
    name: str
    qual: str
    node: ast.ClassDef
    module: "ModInfo"
    base_exprs: list[ast.expr]
    methods: dict[str, FuncInfo] = field(default_factory=dict)
    attrs: dict[str, ast.expr] = field(default_factory=dict)
    live: type | None = None
    mro: list["ClassInfo"] = field(default_factory=list)   # package classes only, in MRO order
    outer: "ClassInfo | None" = None

    @property
    def short(self) -> str:
        return self.qual[len(PKG) + 1:]

    def __hash__(self):
        return hash(self.qual)

    def __eq__(self, o):
        return isinstance(o, ClassInfo) and o.qual == self.qual

    def __repr__(self):
        return f"<Class {self.short}>"

    def resolve(self, name: str):
        """MRO lookup of a method or class attribute: returns ('func', FuncInfo) / ('attr', ClassInfo, expr) / None"""
        for c in self.mro:
            if name in c.methods:
                return ("func", c.methods[name])
            if name in c.attrs:
                al = self._method_alias(c, c.attrs[name])
                if al is not None:
                    return ("func", al)
                return ("attr", c, c.attrs[name])
        return None

    @staticmethod
    def _method_alias(c, expr):
        """`name = OtherClass.method` in a class body: the attribute IS that function"""
        if isinstance(expr, ast.Attribute) and isinstance(expr.value, ast.Name):
            try:
                other = repo().lookup_class(c.module, expr.value.id) if hasattr(repo(), "lookup_class") else None
            except Exception:
                other = None
            if other is None:
                other = next((k for k in repo().classes.values() if k.name == expr.value.id), None)
            if other is not None:
                for k in other.mro:
                    if expr.attr in k.methods:
                        return k.methods[expr.attr]
        return None

    def resolve_after(self, after: "ClassInfo", name: str):
        """super() lookup: first definition after `after` in self's MRO"""
        seen = False
        for c in self.mro:
            if seen:
                if name in c.methods:
                    return ("func", c.methods[name])
                if name in c.attrs:
                    return ("attr", c, c.attrs[name])
            if c == after:
                seen = True
        return None

    def issub(self, other: "ClassInfo") -> bool:
        return other in self.mro


@dataclass
class ModInfo:
    name: str
    path: str
    source: str
    tree: ast.Module
    imports: dict[str, tuple[str, str | None]] = field(default_factory=dict)   # local -> (module, attr)
    funcs: dict[str, FuncInfo] = field(default_factory=dict)
    classes: dict[str, ClassInfo] = field(default_factory=dict)
    globals_: dict[str, ast.expr] = field(default_factory=dict)
    live: object = None


def _decorator_names(node) -> list[str]:
    out = []
    for d in node.decorator_list:
        if isinstance(d, ast.Name):
            out.append(d.id)
        elif isinstance(d, ast.Attribute):
            out.append(d.attr)
        elif isinstance(d, ast.Call):
            f = d.func
            out.append(f.id if isinstance(f, ast.Name) else getattr(f, "attr", "?"))
        else:
            out.append("?")
    return out


def _is_type_checking(test: ast.expr) -> bool:
    return (isinstance(test, ast.Name) and test.id == "TYPE_CHECKING") or (
        isinstance(test, ast.Attribute) and test.attr == "TYPE_CHECKING")


class Repo:
    def __init__(self, root: str = REPO):
        self.root = root
        self.modules: dict[str, ModInfo] = {}
        self.classes: dict[str, ClassInfo] = {}      # qual -> ClassInfo
        self.by_live: dict[type, ClassInfo] = {}
        self.funcs: dict[str, FuncInfo] = {}
        self._load()
        self._import_live()
        self._link()

    # ------------------------------------------------------------------ loading
    def _load(self):
        pkgdir = os.path.join(self.root, PKG)
        for dirpath, _dirs, files in os.walk(pkgdir):
            for fn in sorted(files):
                if not fn.endswith(".py"):
                    continue
                path = os.path.join(dirpath, fn)
                rel = os.path.relpath(path, self.root)[:-3].replace(os.sep, ".")
                if rel.endswith(".__init__"):
                    rel = rel[: -len(".__init__")]
                src = open(path, encoding="utf-8").read()
                tree = ast.parse(src, filename=path)
                mod = ModInfo(rel, path, src, tree)
                self.modules[rel] = mod
                self._scan_module(mod)

    def _resolve_relative(self, mod: ModInfo, node: ast.ImportFrom) -> str:
        if node.level == 0:
            return node.module or ""
        is_pkg = mod.path.endswith("__init__.py")
        parts = mod.name.split(".")
        base = parts if is_pkg else parts[:-1]
        if node.level > 1:
            base = base[: len(base) - (node.level - 1)]
        return ".".join(base + ([node.module] if node.module else []))

    def _scan_module(self, mod: ModInfo):
        def scan(stmts, cls: ClassInfo | None):
            for st in stmts:
                if isinstance(st, ast.If) and _is_type_checking(st.test):
                    continue                                     # dropped: TYPE_CHECKING block
                if isinstance(st, ast.If) and cls is None:
                    scan(st.body, cls)
                    scan(st.orelse, cls)
                    continue
                if isinstance(st, ast.ImportFrom) and cls is None:
                    target = self._resolve_relative(mod, st)
                    for a in st.names:
                        mod.imports[a.asname or a.name] = (target, a.name)
                elif isinstance(st, ast.Import) and cls is None:
                    for a in st.names:
                        mod.imports[(a.asname or a.name).split(".")[0]] = (a.name, None)
                elif isinstance(st, (ast.FunctionDef, ast.AsyncFunctionDef)):
                    decs = _decorator_names(st)
                    if "overload" in decs:
                        continue                                 # dropped: @overload stub
                    kind = "function"
                    if cls is not None:
                        kind = "method"
                        if "staticmethod" in decs:
                            kind = "static"
                        elif "classmethod" in decs:
                            kind = "class"
                        elif "property" in decs:
                            kind = "property"
                    owner = cls.qual if cls else mod.name
                    fi = FuncInfo(st.name, owner + "." + st.name, st, mod, cls, decs, kind)
                    seg = ast.get_source_segment(mod.source, st) or ""
                    fi.src_hash = hashlib.sha256(seg.encode()).hexdigest()[:16]
                    self.funcs[fi.qual] = fi
                    if cls is not None:
                        cls.methods[st.name] = fi
                    else:
                        mod.funcs[st.name] = fi
                elif isinstance(st, ast.ClassDef):
                    owner = cls.qual if cls else mod.name
                    ci = ClassInfo(st.name, owner + "." + st.name, st, mod, list(st.bases), outer=cls)
                    self.classes[ci.qual] = ci
                    if cls is None:
                        mod.classes[st.name] = ci
                    else:
                        cls.attrs[st.name] = st  # nested class as attribute
                    scan(st.body, ci)
                elif isinstance(st, ast.Assign):
                    for t in st.targets:
                        if isinstance(t, ast.Name):
                            (cls.attrs if cls else mod.globals_)[t.id] = st.value
                elif isinstance(st, ast.AnnAssign) and isinstance(st.target, ast.Name) and st.value is not None:
                    (cls.attrs if cls else mod.globals_)[st.target.id] = st.value
        scan(mod.tree.body, None)

    # ------------------------------------------------------------------ live package
    def _import_live(self):
        if self.root not in sys.path:
            sys.path.insert(0, self.root)
        for name in list(sys.modules):
            if name == PKG or name.startswith(PKG + "."):
                f = getattr(sys.modules[name], "__file__", "") or ""
                if not f.startswith(self.root + os.sep):
                    del sys.modules[name]
        try:
            for name in sorted(self.modules):
                self.modules[name].live = importlib.import_module(name)
        except Exception as e:  # the package must import ("still compiles")
            raise CheckerError(f"cannot import {PKG} from {self.root}: {e!r}")
        for ci in self.classes.values():
            obj = ci.module.live
            path = ci.qual[len(ci.module.name) + 1:].split(".")
            for p in path:
                obj = getattr(obj, p)
            if not isinstance(obj, type):
                raise CheckerError(f"{ci.qual} is not a class in the live package")
            ci.live = obj
            self.by_live[obj] = ci

    def _link(self):
        for ci in self.classes.values():
            ci.mro = [self.by_live[c] for c in ci.live.__mro__ if c in self.by_live]
            # cross-check: direct bases named in the AST == live __bases__ (names)
            ast_bases = []
            for b in ci.base_exprs:
                ast_bases.append(b.id if isinstance(b, ast.Name) else getattr(b, "attr", "?"))
            live_bases = [b.__name__ for b in ci.live.__bases__ if b is not object]
            if ast_bases != live_bases:
                raise CheckerError(f"class table mismatch for {ci.qual}: ast {ast_bases} live {live_bases}")
            # cross-check: methods defined in the AST are the ones in the live class dict
            for m in ci.methods:
                if m not in ci.live.__dict__:
                    raise CheckerError(f"{ci.qual}.{m} in source but not in live class")
        # C3 cross-check of the MRO computed from the AST
        for ci in self.classes.values():
            mine = [c.qual for c in self._c3(ci)]
            theirs = [c.qual for c in ci.mro]
            if mine != theirs:
                raise CheckerError(f"MRO mismatch for {ci.qual}: {mine} vs {theirs}")

    def _ast_bases(self, ci: ClassInfo) -> list[ClassInfo]:
        out = []
        for b in ci.live.__bases__:
            if b in self.by_live:
                out.append(self.by_live[b])
        return out

    def _c3(self, ci: ClassInfo) -> list[ClassInfo]:
        bases = self._ast_bases(ci)
        seqs = [self._c3(b) for b in bases] + [list(bases)]
        res = [ci]
        while True:
            seqs = [s for s in seqs if s]
            if not seqs:
                return res
            for s in seqs:
                cand = s[0]
                if not any(cand in t[1:] for t in seqs):
                    break
            else:
                raise CheckerError("inconsistent hierarchy")
            res.append(cand)
            for s in seqs:
                if s and s[0] == cand:
                    del s[0]

    # ------------------------------------------------------------------ queries
    def cls(self, short: str) -> ClassInfo:
        return self.classes[PKG + "." + short]

    def func(self, short: str) -> FuncInfo:
        return self.funcs[PKG + "." + short]

    def subclasses(self, ci: ClassInfo, strict=False) -> list[ClassInfo]:
        return [c for c in self.classes.values() if ci in c.mro and not (strict and c == ci)]

    def all_methods(self, name: str) -> list[FuncInfo]:
        return [c.methods[name] for c in self.classes.values() if name in c.methods]

    def lookup_global(self, mod: ModInfo, name: str):
        """what a bare name means at module level of `mod`:
        ('func', FuncInfo) | ('class', ClassInfo) | ('const', ast.expr, ModInfo) | ('live', obj) | None"""
        seen = set()
        while True:
            if (mod.name, name) in seen:
                return None
            seen.add((mod.name, name))
            if name in mod.funcs:
                return ("func", mod.funcs[name])
            if name in mod.classes:
                return ("class", mod.classes[name])
            if name in mod.globals_:
                return ("const", mod.globals_[name], mod)
            if name in mod.imports:
                tmod, attr = mod.imports[name]
                if tmod in self.modules:
                    if attr is None:
                        return ("live", self.modules[tmod].live)
                    mod, name = self.modules[tmod], attr
                    continue
                # package re-export (e.g. `from . import Table`) or external module
                try:
                    m = importlib.import_module(tmod)
                except Exception:
                    return None
                if attr is None:
                    return ("live", m)
                obj = getattr(m, attr, None)
                if isinstance(obj, type) and obj in self.by_live:
                    return ("class", self.by_live[obj])
                return ("live", obj)
            if hasattr(mod.live, name):
                obj = getattr(mod.live, name)
                if isinstance(obj, type) and obj in self.by_live:
                    return ("class", self.by_live[obj])
                return ("live", obj)
            return None


_REPO: Repo | None = None


def repo() -> Repo:
    global _REPO
    if _REPO is None:
        _REPO = Repo()
    return _REPO
