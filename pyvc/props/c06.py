"""C06 - operator grouping of the expression tree survives rendering.

Every Term class's get_sql is executed symbolically once; its result shape is cut into the tokens at bracket depth 0
(operators, nested renders, data).  Obligations:
prec/exposure  per class: the operators its own text shows at depth 0 are among the declared exposure of
               contracts/spec/precedence.py (classes not declared are atomic: brackets, f(...), CASE..END, one token).
prec/embed     per parent class x operand slot at depth 0 x case of the adjacent parent operator x level of an operator
               a child may expose (closed world = union of declared exposures): where the reference grammar would
               regroup (must_paren), the operand is bracketed by the parent or brackets itself under the flags passed.
prec/arith     ArithmeticExpression: for all 4 x 4 x 2 (parent operator, child operator, side) the bracket condition
               of the real get_sql (through left_/right_needs_parens) is implied by must_paren_arith (exhaustive).
prec/bool      ComplexCriterion passes subcriterion=True to an operand that is a ComplexCriterion with another
               connective, and brackets itself when it receives the flag; NOT passes the flag to its operand.
prec/fuse      where a '-' token is directly followed by an operand, the operand is bracketed or guarded by a test that
               its text does not start with '-'."""
from __future__ import annotations

import re

import z3

from contracts.spec import precedence as P

from ..driver import run_function
from ..front import repo
from ..oblig import PROVED, REFUTED, UNKNOWN, UNSUPPORTED, Obligation
from ..values import CallA, Dyn, IteA, IteV, JoinA, K, Lit, OpA, QuoteA, S, Sym
from .base import canon, classes_using, parallel
from .positions import shape_of
from .render import ctx_arg, field_of, flat_calls, value_is

PROP = "C06"
TOK = re.compile(r"\(|\)|\[|\]|\bCASE\b|\bEND\b|<>|<=|>=|!=|\|\||[A-Z_]+|=|<|>|\+|-|\*|/|&|'")
OPEN, CLOSE = {"(", "[", "CASE"}, {")", "]", "END"}


def _atoms(f, acc=None):
    acc = set() if acc is None else acc
    if z3.is_const(f) and f.decl().kind() == z3.Z3_OP_UNINTERPRETED:
        acc.add(f)
    for ch in f.children():
        _atoms(ch, acc)
    return acc


def is_alias_ite(a):
    return isinstance(a, IteA) and "self.alias" in repr(a) and "Quote" in repr(a)


def linear(atoms, cond=()):
    """all alternatives of a shape as (conditions, token list); tokens: (kind, text, atom)"""
    outs = [(tuple(cond), [])]
    for a in atoms:
        if is_alias_ite(a):
            continue
        if isinstance(a, IteA):
            alts = linear(a.a, (a.c,)) + linear(a.b, (z3.Not(a.c),))
            outs = [(c + c2, t + t2) for c, t in outs for c2, t2 in alts]
        elif isinstance(a, Lit):
            toks = [("lit", m.group(0), a) for m in TOK.finditer(a.s)]
            outs = [(c, t + toks) for c, t in outs]
        elif isinstance(a, CallA):
            outs = [(c, t + [("child", a.cid, a)]) for c, t in outs]
        elif isinstance(a, Dyn):
            outs = [(c, t + [("dyn", repr(a.v), a)]) for c, t in outs]
        elif isinstance(a, JoinA):
            outs = [(c, t + [("join", repr(a.sep), a)]) for c, t in outs]
        else:
            outs = [(c, t + [("atom", type(a).__name__, a)]) for c, t in outs]
        if len(outs) > 256:
            raise OverflowError("too many alternatives")
    return outs


def depth0(tokens):
    """tokens at bracket depth 0; a bracketed group becomes one ('atom','()') token carrying the children inside"""
    d, out, inner = 0, [], []
    for t in tokens:
        if t[0] == "lit" and t[1] in OPEN:
            d += 1
            continue
        if t[0] == "lit" and t[1] in CLOSE:
            d -= 1
            if d == 0:
                out.append(("atom", "()", tuple(inner)))
                inner = []
            continue
        if d == 0:
            out.append(t)
        elif t[0] == "child":
            inner.append(t[1])
    return out


def op_levels(cls_short, tok, first):
    """possible (case label, level) of an operator token, or None when the token is not an operator"""
    if tok[0] == "lit":
        w = tok[1]
        if w == "-" and first:
            return [("unary-minus", 9)]
        if (cls_short, w) in P.NOT_OPERATORS:
            return None
        lv = P.LIT_OVERRIDE.get((cls_short, w), P.LIT_LEVEL.get(w))
        return None if lv is None else [(w, lv)]
    if tok[0] == "dyn":
        d = P.DYN_LEVEL.get((cls_short, tok[1]))
        return None if d is None else sorted(d.items())
    return None


def declared_exposure(ci):
    for k in ci.mro:
        if k.short in P.EXPOSURE:
            return set(P.EXPOSURE[k.short]), k.short
    return set(), None


def dyn_owner(ci, datum):
    for k in ci.mro:
        if (k.short, datum) in P.DYN_LEVEL:
            return k.short
    return ci.short


def analyse(cq):
    """skeletons of one class: [(pc + alternative conditions, depth-0 tokens, state)]"""
    r = repo()
    ci = r.classes[cq]
    fi = ci.resolve("get_sql")[1]
    run = run_function(fi, ci)
    if run.error:
        return ci, fi, run, None, run.error
    ex = run.ex
    sk = []
    try:
        for o in run.outcomes:
            if o.status != "return":
                continue
            ex.st = o.state
            ex.frames = []
            sh = shape_of(ex, o.value)
            for conds, toks in linear(sh.atoms):
                pc = list(o.state.pc) + list(conds)
                if conds and not ex.smt.feasible(pc):
                    continue
                sk.append((pc, depth0(toks), o))
    except OverflowError as e:
        return ci, fi, run, None, str(e)
    return ci, fi, run, sk, None


def owner_short(ci, tok):
    if tok[0] == "dyn":
        return dyn_owner(ci, tok[1])
    for k in ci.mro:
        if (k.short, tok[1]) in P.LIT_OVERRIDE or (k.short, tok[1]) in P.NOT_OPERATORS:
            return k.short
    return ci.short


def check_class(cq):
    r = repo()
    ci, fi, run, sk, err = analyse(cq)
    name = ci.short
    if sk is None:
        return [Obligation(PROP, f"{name}|prec/exposure", "prec/exposure", fi.short, UNSUPPORTED, reason=err)]
    ex = run.ex
    obs = []
    declared, _src = declared_exposure(ci)
    # ---- exposure
    found = {}
    for pc, toks, o in sk:
        sub = ex.smt.atom("ctx.subcriterion") if False else None
        for i, t in enumerate(toks):
            lv = op_levels(owner_short(ci, t), t, i == 0)
            if lv:
                for label, l in lv:
                    found.setdefault(l, set()).add(label)
    # a class that brackets itself under the subcriterion flag is analysed without the flag
    extra = sorted(l for l in found if l not in declared)
    obs.append(Obligation(PROP, f"{name}|prec/exposure", "prec/exposure", fi.short,
                          REFUTED if extra else PROVED,
                          detail=f"operators at bracket depth 0 of {name}: levels {sorted(found)} "
                                 f"{ {l: sorted(v) for l, v in found.items()} }; declared {sorted(declared)}",
                          reason=f"undeclared operator levels at depth 0: { {l: sorted(found[l]) for l in extra} }"
                          if extra else "",
                          witness={"family": "call", "oracle": "grouping", "args": [name]}))
    # ---- embed / fuse per operand slot
    world = sorted(set().union(*P.EXPOSURE.values()))
    sites = {}
    for pc, toks, o in sk:
        paths = {}
        ex.st = o.state
        for ef, _g, _l in flat_calls(o.state.effects):
            if ef.recv is not None:
                try:
                    paths[ef.cid] = (canon(re.sub(r"\[\*[^\]]*\]", "[*]", ex.ident(ef.recv))), ef)
                except Exception:
                    pass
        for i, t in enumerate(toks):
            if t[0] != "child" or t[1] not in paths:
                continue
            slot, ef = paths[t[1]]
            if not slot.startswith("self."):
                continue
            left = op_levels(owner_short(ci, toks[i - 1]), toks[i - 1], i - 1 == 0) if i > 0 else None
            right = op_levels(owner_short(ci, toks[i + 1]), toks[i + 1], False) if i + 1 < len(toks) else None
            # flag passed to the operand
            cv = ctx_arg(ex, o.state, ef)
            subflag = "maybe"
            if cv is not None:
                fv = field_of(ex, o.state, cv, "subcriterion")
                if fv is not None:
                    subflag = value_is(ex, pc, fv, True)
            fuse_left = i > 0 and toks[i - 1][0] == "lit" and toks[i - 1][1] == "-"
            fuse_dyn = i > 0 and toks[i - 1][0] == "dyn" and any(lb == "sub" for lb, _ in (left or []))
            guarded = False
            if fuse_left or fuse_dyn:
                atoms = set()
                for c in pc:
                    atoms |= {a for a in _atoms(c) if a.decl().name().startswith("startswith!") and
                              str(t[1]) in a.decl().name() and "'-'" in a.decl().name()}
                extra = []
                if fuse_dyn:
                    from pypika_tortoise.enums import Arithmetic
                    extra = [ex.enum_eq(Sym("self.operator"), Arithmetic.sub)]
                if fuse_dyn and not ex.smt.feasible(list(pc) + extra):
                    fuse_dyn = False        # this alternative is not a subtraction
                guarded = bool(atoms) and all(not ex.smt.feasible(list(pc) + extra + [a]) for a in atoms)
            sites.setdefault(slot, []).append((left, right, subflag, fuse_left or fuse_dyn, guarded, pc, cv, o))
    for slot, occ in sorted(sites.items()):
        # prec/fuse
        bad_fuse = [1 for (_l, _r, _s, fuse, guarded, _pc, _cv, _o) in occ if fuse and not guarded]
        if any(f for (_l, _r, _s, f, _g, _pc, _cv, _o) in occ):
            obs.append(Obligation(PROP, f"{name}|prec/fuse|{slot}", "prec/fuse", fi.short,
                                  REFUTED if bad_fuse else PROVED,
                                  detail=f"operand {slot} directly follows a '-' token: bracketed unless its text does "
                                         "not start with '-'",
                                  reason="an unbracketed operand follows '-' without a test of its first character"
                                  if bad_fuse else "",
                                  witness={"family": "call", "oracle": "grouping", "args": [name]}))
        # prec/embed: cases of adjacent operators
        if (ci.short, slot) in P.NON_OPERAND_SLOTS or any((k.short, slot) in P.NON_OPERAND_SLOTS for k in ci.mro):
            continue
        cases = {}
        for left, right, subflag, _f, _g, pc, cv, o in occ:
            for side, ops in (("right", left), ("left", right)):
                for label, lvl in (ops or []):
                    cases.setdefault((side, label, lvl), []).append((pc, cv, o))
        arith_parent = any(k.short == "terms.ArithmeticExpression" for k in ci.mro)
        bool_parent = any(k.short == "terms.ComplexCriterion" for k in ci.mro)
        allowed = ex.tags.of_spec(ex.slot_spec(ci, slot.split(".")[1]) or "Node")
        for (side, label, lvl), occs in sorted(cases.items()):
            for l in world:
                need = P.must_paren(lvl, l, side)
                exposing = sorted(k for k, v in P.EXPOSURE.items() if l in v)
                unbracketed = []
                for kshort in exposing:
                    kci = r.cls(kshort)
                    if arith_parent and kshort == "terms.ArithmeticExpression":
                        continue    # arithmetic child under arithmetic parent: prec/arith (exhaustive table)
                    if bool_parent and kshort == "terms.ComplexCriterion":
                        continue    # boolean group under boolean group: prec/bool
                    is_k = ex.smt.tag_in(slot, ex.tags.sub(kci), allowed)
                    for pc, cv, o in occs:
                        pck = list(pc) + [is_k]
                        if not ex.smt.feasible(pck):
                            continue
                        if kshort in P.BRACKETED_UNDER_SUBCRITERION and cv is not None:
                            fv = field_of(ex, o.state, cv, "subcriterion")
                            if fv is not None and value_is(ex, pck, fv, True) == "yes":
                                continue     # the child brackets itself under the flag it receives
                        unbracketed.append(kshort)
                        break
                ok = (not need) or not unbracketed
                obs.append(Obligation(PROP, f"{name}|prec/embed|{slot}|{side}-of-{label}|child-level-{l}", "prec/embed",
                                      fi.short, PROVED if ok else REFUTED,
                                      detail=f"{slot} on the {side} of {label} (level {lvl}); a child exposing level {l} "
                                             f"({', '.join(exposing)}) {'must' if need else 'need not'} be bracketed; "
                                             f"rendered without brackets for: {unbracketed or 'none'}",
                                      reason="" if ok else f"an operand of class {unbracketed} is regrouped by the "
                                                           f"reference grammar: no brackets around {slot}",
                                      witness={"family": "call", "oracle": "grouping", "args": [name, slot]}))
    return obs


def bracket_cond(ex, atoms, cid):
    """condition under which the nested render cid is wrapped in brackets by the parent's own text"""
    for i, a in enumerate(atoms):
        if isinstance(a, CallA) and a.cid == cid:
            before = atoms[i - 1] if i > 0 else None
            after = atoms[i + 1] if i + 1 < len(atoms) else None
            wrapped = isinstance(before, Lit) and before.s.endswith("(") and isinstance(after, Lit) and after.s.startswith(")")
            return z3.BoolVal(wrapped)
        if isinstance(a, IteA):
            ca, cb = bracket_cond(ex, list(a.a), cid), bracket_cond(ex, list(a.b), cid)
            if ca is not None or cb is not None:
                ca = z3.BoolVal(False) if ca is None else ca
                cb = z3.BoolVal(False) if cb is None else cb
                return z3.simplify(z3.If(a.c, ca, cb))
    return None


def check_arith(_):
    from pypika_tortoise.enums import Arithmetic
    r = repo()
    ci = r.cls("terms.ArithmeticExpression")
    fi = ci.resolve("get_sql")[1]
    run = run_function(fi, ci)
    if run.error:
        return [Obligation(PROP, "terms.ArithmeticExpression|prec/arith", "prec/arith", fi.short, UNSUPPORTED,
                           reason=run.error)]
    ex = run.ex
    arith = ex.tags.sub(ci)
    results = {}
    for o in run.outcomes:
        if o.status != "return":
            continue
        ex.st = o.state
        ex.frames = []
        sh = shape_of(ex, o.value)
        calls = {}
        for ef, _g, _l in flat_calls(o.state.effects):
            if ef.recv is not None and ef.method == "get_sql":
                calls[canon(ex.ident(ef.recv))] = ef.cid
        for side in ("left", "right"):
            cid = calls.get(f"self.{side}")
            if cid is None:
                continue
            bc = bracket_cond(ex, list(sh.atoms), cid)
            if bc is None:
                continue
            is_arith = ex.smt.tag_in(f"self.{side}", arith, ex.tags.of_spec("Term"))
            for p in Arithmetic:
                for c in Arithmetic:
                    pc = list(o.state.pc) + [is_arith, ex.enum_eq(Sym("self.operator"), p),
                                             ex.enum_eq(Sym(f"self.{side}.operator"), c)]
                    if not ex.smt.feasible(pc):
                        continue
                    key = (p.name, c.name, side)
                    need = P.must_paren_arith(p.name, c.name, side)
                    has = ex.smt.implied(pc, bc)
                    results.setdefault(key, []).append((need, has, str(z3.simplify(bc))[:160]))
    obs = []
    for p in Arithmetic:
        for c in Arithmetic:
            for side in ("left", "right"):
                key = (p.name, c.name, side)
                res = results.get(key)
                if not res:
                    obs.append(Obligation(PROP, f"terms.ArithmeticExpression|prec/arith|{p.name}|{c.name}|{side}",
                                          "prec/arith", fi.short, UNKNOWN, reason="case not reached"))
                    continue
                bad = [x for x in res if x[0] and not x[1]]
                obs.append(Obligation(PROP, f"terms.ArithmeticExpression|prec/arith|{p.name}|{c.name}|{side}",
                                      "prec/arith", fi.short, REFUTED if bad else PROVED,
                                      detail=f"parent {p.value}, {side} child {c.value}: brackets "
                                             f"{'required' if res[0][0] else 'not required'}; code brackets iff {res[0][2]}",
                                      reason=f"x {p.value} (y {c.value} z) is rendered without brackets on the {side}"
                                      if bad else "",
                                      witness={"family": "call", "oracle": "grouping_arith",
                                               "args": [p.name, c.name, side]}))
    return obs


def check_bool(_):
    r = repo()
    obs = []
    ci = r.cls("terms.ComplexCriterion")
    fi = ci.resolve("get_sql")[1]
    run = run_function(fi, ci)
    name = ci.short
    if run.error:
        return [Obligation(PROP, f"{name}|prec/bool", "prec/bool", fi.short, UNSUPPORTED, reason=run.error)]
    ex = run.ex
    cx = ex.tags.sub(ci)
    for side in ("left", "right"):
        ok, why, n = True, "", 0
        for o in run.outcomes:
            if o.status != "return":
                continue
            ex.st = o.state
            for ef, _g, _l in flat_calls(o.state.effects):
                if ef.recv is None or ef.method != "get_sql" or canon(ex.ident(ef.recv)) != f"self.{side}":
                    continue
                n += 1
                cv = ctx_arg(ex, o.state, ef)
                fv = field_of(ex, o.state, cv, "subcriterion") if cv is not None else None
                if fv is None:
                    ok, why = False, "flag passed to the operand not determinable"
                    continue
                is_cx = ex.smt.tag_in(f"self.{side}", cx, ex.tags.of_spec("Term"))
                same = ex.enum_var(Sym(f"self.{side}.comparator")) == ex.enum_var(Sym("self.comparator"))
                pc = list(o.state.pc) + [is_cx, z3.Not(same)]
                if ex.smt.feasible(pc) and value_is(ex, pc, fv, True) != "yes":
                    ok, why = False, f"flag is {fv!r} for a nested group with another connective"
        obs.append(Obligation(PROP, f"{name}|prec/bool|flag|{side}", "prec/bool", fi.short,
                              PROVED if ok and n else REFUTED,
                              detail=f"{side} operand that is a boolean group with another connective receives "
                                     "subcriterion=True", reason=why or ("" if n else "operand render not found"),
                              witness={"family": "call", "oracle": "grouping", "args": [name]}))
    # brackets itself under the flag
    ok, why = True, ""
    for o in run.outcomes:
        if o.status != "return":
            continue
        ex.st = o.state
        ex.frames = []
        sh = shape_of(ex, o.value)
        for conds, toks in linear(sh.atoms):
            pc = list(o.state.pc) + list(conds) + [ex.truth(field_of(ex, o.state, run.params["ctx"], "subcriterion"))]
            if not ex.smt.feasible(pc):
                continue
            d0 = depth0(toks)
            if not (len(d0) == 1 and d0[0][:2] == ("atom", "()")):
                ok, why = False, f"under subcriterion the text is {[t[:2] for t in d0]}"
    obs.append(Obligation(PROP, f"{name}|prec/bool|self-bracket", "prec/bool", fi.short, PROVED if ok else REFUTED,
                          detail="a boolean group that receives subcriterion=True is enclosed in brackets",
                          reason=why, witness={"family": "call", "oracle": "grouping", "args": [name]}))
    # NOT
    ci = r.cls("terms.Not")
    fi = ci.resolve("get_sql")[1]
    run = run_function(fi, ci)
    if run.error:
        obs.append(Obligation(PROP, "terms.Not|prec/bool|flag|term", "prec/bool", fi.short, UNSUPPORTED, reason=run.error))
        return obs
    ex = run.ex
    ok, why, n = True, "", 0
    for o in run.outcomes:
        if o.status != "return":
            continue
        ex.st = o.state
        for ef, _g, _l in flat_calls(o.state.effects):
            if ef.recv is None or ef.method != "get_sql":
                continue
            n += 1
            cv = ctx_arg(ex, o.state, ef)
            fv = field_of(ex, o.state, cv, "subcriterion") if cv is not None else None
            if fv is None or value_is(ex, list(o.state.pc), fv, True) != "yes":
                ok, why = False, f"NOT renders {canon(ex.ident(ef.recv))} with subcriterion={fv!r}"
    obs.append(Obligation(PROP, "terms.Not|prec/bool|flag|term", "prec/bool", fi.short, PROVED if ok and n else REFUTED,
                          detail="NOT renders its operand (every nested render) with subcriterion=True",
                          reason=why or ("" if n else "operand render not found"),
                          witness={"family": "call", "oracle": "grouping", "args": ["terms.Not"]}))
    return obs


def _dispatch(item):
    return {"class": check_class, "arith": check_arith, "bool": check_bool}[item[0]](item[1])


def targets(r):
    out, seen = [], set()
    for ci in r.classes.values():
        if not ci.qual.startswith(("pypika_tortoise.terms", "pypika_tortoise.functions", "pypika_tortoise.analytics")):
            continue
        if not any(k.short == "terms.Term" for k in ci.mro):
            continue
        res = ci.resolve("get_sql")
        if not res or res[0] != "func":
            continue
        fi = res[1]
        # one representative class per (function, declared exposure): the skeleton depends only on the function body
        # and the helpers it reaches through self
        key = (fi.qual, tuple(sorted(declared_exposure(ci)[0])),
               tuple(sorted(n for n in ("get_function_sql", "get_special_params_sql", "get_partition_sql", "get_frame_sql",
                                         "_get_str_sql", "get_value_sql")
                            if ci.resolve(n) and ci.resolve(n)[0] == "func" for n in [ci.resolve(n)[1].qual])))
        if key in seen:
            continue
        seen.add(key)
        out.append(ci.qual)
    return out


def generate(tier="quick"):
    r = repo()
    items = [("class", cq) for cq in targets(r)] + [("arith", None), ("bool", None)]
    obs = parallel(_dispatch, items)
    # classes whose render function is outside the executor's subset: a bounded check of the real function stands in
    unsup = [o for o in obs if not isinstance(o, tuple) and o.status == UNSUPPORTED]
    if unsup:
        import json
        import os
        import subprocess
        from ..main import REPLAY_PY
        from ..oblig import BOUNDED_OK, VERIF
        classes = sorted({o.key.split("|")[0] for o in unsup})
        try:
            pr = subprocess.run([REPLAY_PY, os.path.join(VERIF, "replaylib", "batch.py")],
                                input=json.dumps([["grouping", [c]] for c in classes]), capture_output=True, text=True,
                                timeout=1500, env=dict(os.environ, PYTHONDONTWRITEBYTECODE="1"))
            res = dict(zip(classes, json.loads(pr.stdout)))
        except Exception:
            res = {}
        bound = ("every parent of the class over a pool of 23 operand trees (depth <= 2) in both operand slots, "
                 "rendered and evaluated by SQLite against the value of the built tree")
        for o in unsup:
            c = o.key.split("|")[0]
            if c not in res:
                continue
            why = o.reason
            if res[c]:
                o.status, o.reason = REFUTED, f"outside the executor's subset ({why}); bounded check: {res[c]}"
                o.witness = {"family": "call", "oracle": "grouping", "args": [c]}
            else:
                o.status, o.reason = BOUNDED_OK, f"outside the executor's subset ({why})"
            o.bounded, o.backend = bound, "bounded-exhaustive"
    funcs = sorted({r.classes[cq].resolve("get_sql")[1].qual for cq in targets(r)} |
                   {"pypika_tortoise.terms.ArithmeticExpression.left_needs_parens",
                    "pypika_tortoise.terms.ArithmeticExpression.right_needs_parens",
                    "pypika_tortoise.terms.ComplexCriterion.needs_brackets"})
    return obs, {"functions": funcs,
                 "assumptions": ["reference precedence table contracts/spec/precedence.py (trusted spec, same for all "
                                 "six dialects); lemma L-PREC (paper): a printer satisfying prec/embed, prec/arith, "
                                 "prec/bool and prec/fuse is a right inverse of the reference parser up to the allowed "
                                 "re-associations",
                                 "closed world of operand classes = the Term classes of the package; the exposure of "
                                 "user-supplied raw SQL (LiteralValue, PseudoColumn, custom functions) is outside",
                                 "nested renders inside brackets, function-call argument lists, CASE..END and quoted "
                                 "literals are atomic for the reference lexer",
                                 "fusion of tokens other than '-' '-' is not analysed (operators are printed from enum "
                                 "values without surrounding spaces only for arithmetic and comparison operators)"]}
