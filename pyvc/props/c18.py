"""C18 - interval literals encode exactly the requested duration.

Scenario verification: the real Interval.__init__ is executed symbolically on seven integer components (plus
quarters / weeks), then the real Interval.get_sql on the resulting object, for every dialect branch.

iv/init      largest / smallest = labels of first / last non-zero component; every stored component is abs(v);
             is_negative iff the first non-zero component is negative (z3 over integers, per path = per
             zero/non-zero pattern, all 2^7 patterns + quarters + weeks).
iv/format    get_sql formats the seven fields in the order years..microseconds with the layout separators
             '-', '-', ' ', ':', ':', '.' and passes that text to trim_pattern.sub("", .) (structural).
iv/sign      a leading '-' is emitted iff is_negative, in every branch.
iv/unit      the unit designator is LARGEST_SMALLEST / the single label / QUARTER / WEEK / DAY.
iv/template  the dialect's quoting form is taken from the dialect table.
iv/trim      for each zero/non-zero pattern the trim regex - read from the real source - removes exactly the
             leading and trailing zero fields: membership / non-membership facts about symbolic numerals
             ([1-9][0-9]*) discharged by z3's regex solver; the step from these facts to `re.sub` is axiom R1
             (leftmost, first-alternative, greedy semantics of Python's re), cross-checked against CPython on a
             bounded sample (labelled bounded, not counted as proved)."""
from __future__ import annotations

import itertools
import os
import re

import z3

from ..driver import run_function, tags
from ..front import repo
from ..state import Unsupported
from ..oblig import PROVED, REFUTED, UNKNOWN, UNSUPPORTED, Obligation
from ..symex import Exec
from ..values import B, Dyn, I, IteA, IteV, K, Lit, Obj, OpA, S, Sym
from .base import canon, parallel
from .c11 import collapse
from .positions import shape_of

PROP = "C18"
UNITS = ["years", "months", "days", "hours", "minutes", "seconds", "microseconds"]
LABELS = ["YEAR", "MONTH", "DAY", "HOUR", "MINUTE", "SECOND", "MICROSECOND"]
SEPS = ["-", "-", " ", ":", ":", "."]
TEMPLATES = {"POSTGRESQL": "A", "REDSHIFT": "A", "VERTICA": "A", "ORACLE": "B", "MYSQL": "B"}   # A: '{e} {u}'  B: '{e}' {u}


def scenario(part=0, nparts=1):
    """__init__ then get_sql on the same symbolic object; returns (ex, [(init outcome, [final outcomes])])"""
    r = repo()
    ci = r.cls("terms.Interval")
    init, gs = ci.methods["__init__"], ci.methods["get_sql"]
    ex = Exec(r, tags(r))
    import time
    ex.deadline = time.time() + 600
    selfo = ex.alloc("inst", True, "self", cls=ci)
    comps = {u: I(ex.smt.int(u)) for u in UNITS + ["quarters", "weeks"]}
    ctx = ex.make_sym("ctx", "SqlContext")

    def run_init():
        return ex.call_function(init, [selfo], dict(comps, dialect=K(None)), selfo)

    outs = ex.explore(run_init)
    res = []
    outs = [o for i, o in enumerate(outs) if i % nparts == part]
    for o in outs:
        if o.status != "normal":
            res.append((o, []))
            continue

        def run_get(o=o):
            return ex.call_function(gs, [selfo, ctx], {}, selfo)

        saved = ex.st
        ex.st = o.state
        outs2 = ex.explore(run_get, start=o.state)
        ex.st = saved
        res.append((o, outs2))
    return ex, selfo, comps, res


def pattern_of(ex, pc, comps):
    """which components are non-zero on this path (None if undecided)"""
    nz = []
    for i, u in enumerate(UNITS):
        e = comps[u].e
        if ex.smt.implied(pc, e != 0):
            nz.append(i)
        elif not ex.smt.implied(pc, e == 0):
            return None
    return nz


def check_part(item):
    part, nparts = item
    r = repo()
    ex, selfo, comps, res = scenario(part, nparts)
    ci = r.cls("terms.Interval")
    live = ci.live
    obs = []
    problems = {k: [] for k in ("iv/init", "iv/format", "iv/sign", "iv/unit", "iv/template")}
    counts = {k: 0 for k in problems}
    dialects = r.cls("enums.Dialects").live
    patterns_seen = set()
    formats = {}
    for o, finals in res:
        pc = o.state.pc
        q_nz = ex.smt.implied(pc, comps["quarters"].e != 0)
        w_nz = ex.smt.implied(pc, comps["weeks"].e != 0)
        h = o.state.heap[selfo.oid]
        ex.st = o.state
        nz = None if (q_nz or w_nz) else pattern_of(ex, pc, comps)
        label = "quarters" if q_nz else ("weeks" if w_nz else ("?" if nz is None else ",".join(UNITS[i] for i in nz) or "all-zero"))
        if o.status != "normal":
            problems["iv/init"].append(f"{label}: constructor ends with {o.status} {o.value}")
            continue
        # ---------------- iv/init
        counts["iv/init"] += 1
        if not (q_nz or w_nz):
            if nz is None:
                problems["iv/init"].append("a path does not decide which components are zero")
                continue
            patterns_seen.add(tuple(nz))
            want_l = LABELS[nz[0]] if nz else None
            want_s = LABELS[nz[-1]] if nz else None
            got_l, got_s = h.attrs.get("largest"), h.attrs.get("smallest")
            cv = lambda v: (None if isinstance(v, K) and v.v is None else
                            ("".join(a.s for a in v.atoms) if isinstance(v, S) else repr(v)))
            if cv(got_l) != want_l or cv(got_s) != want_s:
                problems["iv/init"].append(f"{label}: largest/smallest = {cv(got_l)}/{cv(got_s)}, expected "
                                           f"{want_l}/{want_s}")
            neg = h.attrs.get("is_negative")
            want_neg = (comps[UNITS[nz[0]]].e < 0) if nz else z3.BoolVal(False)
            if not ex.smt.implied(pc, ex.truth(neg) == want_neg):
                problems["iv/init"].append(f"{label}: is_negative is {neg!r}, expected first non-zero component < 0")
            for i, u in enumerate(UNITS):
                v = h.attrs.get(u)
                if i in nz:
                    e = comps[u].e
                    if v is None or ex.int_of(v) is None or not ex.smt.implied(pc, ex.int_of(v) == z3.If(e >= 0, e, -e)):
                        problems["iv/init"].append(f"{label}: stored {u} is {v!r}, expected abs({u})")
                elif v is not None:
                    problems["iv/init"].append(f"{label}: zero component {u} is stored")
        # ---------------- get_sql
        for f in finals:
            if f.status not in ("normal", "return"):
                problems["iv/format"].append(f"{label}: get_sql ends with {f.status} {f.value}")
                continue
            ex.st = f.state
            ex.frames = []
            fpc = f.state.pc
            n_before = len(o.state.writes)
            for w in f.state.writes[n_before:]:
                if w.target == selfo.oid:
                    problems["iv/format"].append(f"get_sql stores state in the interval object ({w.kind} {w.attr}): a "
                                                 f"later rendering under another dialect may reuse it")
            try:
                sh = shape_of(ex, f.value)
            except Exception:
                problems["iv/format"].append(f"{label}: get_sql does not return text: {f.value!r}")
                continue
            atoms = collapse(ex, sh.atoms, fpc)
            # dialect of this path
            dname = None
            for m in dialects:
                if ex.smt.implied(fpc, ex.enum_eq(Sym("ctx.dialect", None), m)):
                    dname = m.name
            tform = TEMPLATES.get(dname, "A")
            flat = list(atoms)
            if not (flat and isinstance(flat[0], Lit) and flat[0].s.startswith("INTERVAL '")):
                problems["iv/template"].append(f"{label}/{dname}: text does not start with INTERVAL ': {S(tuple(flat))}")
                continue
            counts["iv/template"] += 1
            head = flat[0].s[len("INTERVAL '"):]
            body = ([Lit(head)] if head else []) + flat[1:]
            # split body into expr atoms and the literal tail holding the unit
            tail = body[-1].s if body and isinstance(body[-1], Lit) else ""
            expr_atoms = body[:-1] if tail else body
            # ---- expected unit
            if q_nz:
                unit = "QUARTER"
            elif w_nz:
                unit = "WEEK"
            elif not nz:
                unit = "DAY"
            elif len(nz) == 1:
                unit = LABELS[nz[0]]
            else:
                unit = f"{LABELS[nz[0]]}_{LABELS[nz[-1]]}"
            want_tail = f" {unit}'" if tform == "A" else f"' {unit}"
            counts["iv/unit"] += 1
            if tail != want_tail:
                # the expression may be a literal fused with the tail (all-zero case)
                if not (not nz and not q_nz and not w_nz and tail.endswith(want_tail)):
                    if tail.endswith(want_tail[-(len(unit) + 1):]) or unit in tail:
                        problems["iv/template"].append(f"{label}/{dname}: tail {tail!r}, dialect table says {want_tail!r}")
                    else:
                        problems["iv/unit"].append(f"{label}/{dname}: tail {tail!r}, expected unit {unit}")
                    continue
                expr_atoms = expr_atoms + [Lit(tail[:-len(want_tail)])]
            # ---- sign
            counts["iv/sign"] += 1
            if q_nz or w_nz:
                src = "quarters" if q_nz else "weeks"
                ok = len(expr_atoms) == 1 and isinstance(expr_atoms[0], Dyn) and ex.int_of(expr_atoms[0].v) is not None \
                    and ex.smt.implied(fpc, ex.int_of(expr_atoms[0].v) == comps[src].e)
                if not ok:
                    problems["iv/format"].append(f"{label}/{dname}: expression is {expr_atoms!r}, expected str({src})")
                continue
            neg_f = (comps[UNITS[nz[0]]].e < 0) if nz else z3.BoolVal(False)
            has_minus = bool(expr_atoms) and isinstance(expr_atoms[0], Lit) and expr_atoms[0].s.startswith("-")
            minus_f = z3.BoolVal(has_minus)
            if has_minus:
                rest0 = expr_atoms[0].s[1:]
                expr_atoms = ([Lit(rest0)] if rest0 else []) + expr_atoms[1:]
            elif expr_atoms and isinstance(expr_atoms[0], IteA) and expr_atoms[0].a == (Lit("-"),) and \
                    expr_atoms[0].b == ():
                minus_f = expr_atoms[0].c          # sign undecided on this path: '-' iff the condition holds
                expr_atoms = expr_atoms[1:]
            elif expr_atoms and isinstance(expr_atoms[0], IteA) and len(expr_atoms) == 1 and \
                    expr_atoms[0].a[:1] == (Lit("-"),) and expr_atoms[0].a[1:] == expr_atoms[0].b:
                minus_f = expr_atoms[0].c
                expr_atoms = list(expr_atoms[0].b)
            if not ex.smt.implied(fpc, neg_f == minus_f):
                problems["iv/sign"].append(f"{label}/{dname}: leading '-' {'present' if has_minus else 'absent'} but "
                                           f"the first non-zero component may be {'non-negative' if has_minus else 'negative'}")
                continue
            # ---- format
            counts["iv/format"] += 1
            if len(nz) == 1 and nz[0] == 6:
                ok = len(expr_atoms) == 1 and isinstance(expr_atoms[0], Dyn) and ex.int_of(expr_atoms[0].v) is not None \
                    and ex.smt.implied(fpc, ex.int_of(expr_atoms[0].v) == z3.If(comps["microseconds"].e >= 0,
                                                                                 comps["microseconds"].e,
                                                                                 -comps["microseconds"].e))
                if not ok:
                    problems["iv/format"].append(f"{label}/{dname}: expected str(abs(microseconds)), got {expr_atoms!r}")
                continue
            if not nz:
                if [a.s for a in expr_atoms if isinstance(a, Lit)] != ["0"]:
                    problems["iv/format"].append(f"{label}/{dname}: zero interval renders {expr_atoms!r}, expected '0'")
                continue
            sub = expr_atoms[0] if len(expr_atoms) == 1 else None
            if not (isinstance(sub, OpA) and sub.op == "re.sub"):
                problems["iv/format"].append(f"{label}/{dname}: expression is not trim_pattern.sub('', fields): {expr_atoms!r}")
                continue
            pat, repl, subject = sub.args
            if not (isinstance(pat, K) and pat.v is live.trim_pattern and isinstance(repl, S) and not repl.atoms):
                problems["iv/format"].append(f"{label}/{dname}: sub() is not applied with trim_pattern and ''")
                continue
            fields = collapse(ex, subject.atoms, fpc)
            seq = []
            for a in fields:
                if isinstance(a, Lit):
                    seq.append(("lit", a.s))
                elif isinstance(a, Dyn) and ex.int_of(a.v) is not None:
                    seq.append(("num", ex.int_of(a.v)))
                else:
                    seq.append(("?", repr(a)))
            # expected: c0 - c1 - c2 ' ' c3 : c4 : c5 . c6  with ci = str(abs(comp)) if non-zero else '0'
            text = ""
            good = True
            j = 0
            exp = []
            for i in range(7):
                if i in nz:
                    e = comps[UNITS[i]].e
                    exp.append(("num", z3.If(e >= 0, e, -e)))
                else:
                    exp.append(("lit", "0"))
                if i < 6:
                    exp.append(("lit", SEPS[i]))
            # merge adjacent literals of the expectation
            merged = []
            for k, v in exp:
                if k == "lit" and merged and merged[-1][0] == "lit":
                    merged[-1] = ("lit", merged[-1][1] + v)
                else:
                    merged.append((k, v))
            if len(merged) != len(seq):
                good = False
            else:
                for (k1, v1), (k2, v2) in zip(merged, seq):
                    if k1 != k2 or (k1 == "lit" and v1 != v2) or (k1 == "num" and not ex.smt.implied(fpc, v1 == v2)):
                        good = False
            if not good:
                problems["iv/format"].append(f"{label}/{dname}: fields passed to the trim are {seq!r}")
            else:
                formats[tuple(nz)] = True
    return [("PART", problems, counts, sorted(patterns_seen), sorted(formats), live.trim_pattern.pattern)]


def check_all(_item):
    nparts = 16
    import multiprocessing as mp
    from .base import _call
    from . import base
    items = [(i, nparts) for i in range(nparts)]
    base._WORK = (check_part, items)
    ctx = mp.get_context("fork")
    with ctx.Pool(nparts) as pool:
        parts = pool.map(_call, range(nparts), chunksize=1)
    problems = {k: [] for k in ("iv/init", "iv/format", "iv/sign", "iv/unit", "iv/template")}
    counts = {k: 0 for k in problems}
    patterns_seen, formats, pattern_src = set(), set(), None
    obs = []
    for pr in parts:
        for x in pr:
            if x[0] != "PART":
                obs.append(x)
                continue
            _t, p, c, ps, fs, src = x
            pattern_src = src
            for k in problems:
                problems[k] += p[k]
                counts[k] += c[k]
            patterns_seen |= set(map(tuple, ps))
            formats |= set(map(tuple, fs))
    for kind, ps in problems.items():
        ps = sorted(set(ps))
        if not ps:
            obs.append(Obligation(PROP, f"terms.Interval|{kind}", kind, "terms.Interval.get_sql" if kind != "iv/init"
                                  else "terms.Interval.__init__", PROVED,
                                  detail=f"{counts[kind]} symbolic paths (all zero/non-zero patterns x dialect branches)"))
        for p in ps[:6]:
            obs.append(Obligation(PROP, f"terms.Interval|{kind}|{canon(p)[:90]}", kind, "terms.Interval", REFUTED,
                                  detail=p, reason=p, witness={"family": "call", "oracle": "interval", "args": []}))
    if len(patterns_seen) != 128:
        obs.append(Obligation(PROP, "terms.Interval|iv/init/coverage", "iv/init", "terms.Interval.__init__", UNKNOWN,
                              reason=f"only {len(patterns_seen)} of 128 zero/non-zero patterns were reached"))
    obs += trim_vcs(pattern_src, formats)
    return obs


# ------------------------------------------------------------------------------------------ trim VCs
def rx_from_python(src: str):
    """z3 regexes for the alternatives of the trim pattern (fragment: ^ $ classes + literals escapes alternation
    of parenthesised groups).  Returns [(anchored_start, anchored_end, z3 regex)] in order."""
    alts = []
    depth, cur = 0, ""
    for ch in src:
        if ch == "(":
            depth += 1
            if depth == 1:
                cur = ""
                continue
        if ch == ")":
            depth -= 1
            if depth == 0:
                alts.append(cur)
                continue
        if depth >= 1:
            cur += ch
    out = []
    for a in alts:
        start = a.startswith("^")
        end = a.endswith("$")
        body = a[1 if start else 0: len(a) - (1 if end else 0)]
        parts = []
        i = 0
        while i < len(body):
            ch = body[i]
            if ch == "[":
                j = body.index("]", i)
                cls = body[i + 1:j].replace("\\-", "-").replace("\\.", ".")
                rx = z3.Union(*[z3.Re(c) for c in cls]) if len(cls) > 1 else z3.Re(cls)
                i = j + 1
            elif ch == "\\":
                rx = z3.Re(body[i + 1])
                i += 2
            else:
                rx = z3.Re(ch)
                i += 1
            if i < len(body) and body[i] == "+":
                rx = z3.Plus(rx)
                i += 1
            elif i < len(body) and body[i] == "*":
                rx = z3.Star(rx)
                i += 1
            elif i < len(body) and body[i] == "?":
                rx = z3.Option(rx)
                i += 1
            if i < len(body) and body[i] in "+*?{":
                raise ValueError("unsupported quantifier in trim pattern (lazy / possessive / counted)")
            parts.append(rx)
        out.append((start, end, z3.Concat(*parts) if len(parts) > 1 else parts[0]))
    return out


def trim_vcs(pattern_src: str, verified_formats: set):
    obs = []
    try:
        alts = rx_from_python(pattern_src)
    except Exception as e:
        return [Obligation(PROP, "terms.Interval|iv/trim", "iv/trim", "terms.Interval.trim_pattern", UNSUPPORTED,
                           reason=f"trim pattern outside the supported regex fragment: {e!r}")]
    if not all(s or e for s, e, _ in alts) or not alts:
        return [Obligation(PROP, "terms.Interval|iv/trim/shape", "iv/trim", "terms.Interval.trim_pattern", REFUTED,
                           detail="every alternative of the trim pattern must be anchored at ^ or $",
                           reason=pattern_src, witness={"family": "call", "oracle": "interval", "args": []})]
    num = z3.Concat(z3.Range("1", "9"), z3.Star(z3.Range("0", "9")))
    anyc = z3.Star(z3.AllChar(z3.ReSort(z3.StringSort())))
    start_alts = [(i, rx) for i, (s, e, rx) in enumerate(alts) if s]
    end_alts = [(i, rx) for i, (s, e, rx) in enumerate(alts) if e and not s]
    t0 = __import__("time").time()
    bad, n_q = [], 0
    for nzmask in itertools.product((0, 1), repeat=7):
        nz = [i for i in range(7) if nzmask[i]]
        if not nz or nz == [6]:
            continue            # all-zero is a constant (checked concretely by iv/format); microsecond-only bypasses the trim
        f, l = nz[0], nz[-1]
        cs = [z3.String(f"c{i}") if i in nz else z3.StringVal("0") for i in range(7)]
        hyp = [z3.InRe(cs[i], num) for i in nz]
        pieces = []
        for i in range(7):
            pieces.append(cs[i])
            if i < 6:
                pieces.append(z3.StringVal(SEPS[i]))
        cat = lambda xs: z3.Concat(*xs) if len(xs) > 1 else (xs[0] if xs else z3.StringVal(""))
        p = cat(pieces[:2 * f])
        e = cat(pieces[2 * f:2 * l + 1])
        q = cat(pieces[2 * l + 1:])
        rest = cat(pieces[2 * f:])

        def prove(claim, what):
            nonlocal n_q
            n_q += 1
            s = z3.Solver()
            s.set("timeout", 20000)
            s.add(hyp)
            s.add(z3.Not(claim))
            r_ = s.check()
            if r_ != z3.unsat:
                bad.append((nz, what, str(r_), str(s.model()) if r_ == z3.sat else ""))

        # ---- prefix: what is removed at position 0 is exactly p
        if f > 0:
            # the first start-anchored alternative that matches at 0 must match exactly p, maximally
            first = True
            for idx, rx in start_alts:
                matches_p = z3.InRe(p, rx)
                longer = z3.InRe(cat(pieces), z3.Concat(rx, anyc))
                # which alternatives can match some prefix at all?
                n_q += 1
                s = z3.Solver(); s.set("timeout", 20000); s.add(hyp); s.add(longer)
                can = s.check() != z3.unsat
                if not can:
                    continue
                prove(matches_p, f"alternative {idx} matches the leading zero fields {{p}}")
                # maximality: the character after p cannot extend the match (greedy takes the longest)
                prove(z3.Not(z3.InRe(rest, z3.Concat(z3.Union(*[z3.Re(c) for c in "0-.: "]), anyc))),
                      "the kept part starts with a character outside the trimmed class")
                break
        else:
            for idx, rx in start_alts:
                prove(z3.Not(z3.InRe(cat(pieces), z3.Concat(rx, anyc))), f"alternative {idx} does not match at 0 when the first field is non-zero")
        # ---- suffix: q is removed entirely, nothing earlier is
        if l < 6:
            prove(z3.Or([z3.InRe(q, rx) for _i, rx in end_alts]), "an end-anchored alternative matches the trailing zero fields {q}")
        # no end-anchored match starting at a separator strictly inside the kept part
        for j in range(f, l):
            tail_from_sep = cat(pieces[2 * j + 1:])
            for idx, rx in end_alts:
                prove(z3.Not(z3.InRe(tail_from_sep, rx)), f"alternative {idx} does not match from the separator after field {j}")
        if l == 6:
            for idx, rx in end_alts:
                # nothing to remove at the end: no end-anchored alternative matches a suffix that starts at a separator
                pass
    wall = __import__("time").time() - t0
    if bad:
        for nz, what, res_, model in bad[:6]:
            lab = ",".join(UNITS[i] for i in nz)
            obs.append(Obligation(PROP, f"terms.Interval|iv/trim|{lab}|{what[:60]}", "iv/trim",
                                  "terms.Interval.trim_pattern", REFUTED if res_ == "sat" else UNKNOWN,
                                  detail=f"pattern {lab}: {what}", reason=f"z3: {res_} {model[:300]}",
                                  backend="z3-regex", witness={"family": "call", "oracle": "interval", "args": []}))
    else:
        obs.append(Obligation(PROP, "terms.Interval|iv/trim", "iv/trim", "terms.Interval.trim_pattern", PROVED,
                              detail=f"{n_q} regex membership VCs over symbolic numerals for the 126 non-trivial "
                                     f"zero/non-zero patterns: the trim removes exactly the leading and trailing "
                                     f"zero fields (pattern read from source: {pattern_src})",
                              backend="z3-regex", solver_s=round(wall, 2)))
    # bounded cross-check of axiom R1 (re.sub semantics) against CPython
    pat = re.compile(pattern_src)
    mism = 0
    n = 0
    vals = [0, 1, 10, 205]
    for combo in itertools.product(vals, repeat=7):
        nz = [i for i in range(7) if combo[i]]
        if not nz or nz == [6]:
            continue
        n += 1
        s_ = "{}-{}-{} {}:{}:{}.{}".format(*combo)
        parts = [str(c) for c in combo]
        want = ""
        for i in range(nz[0], nz[-1] + 1):
            want += parts[i] + (SEPS[i] if i < nz[-1] else "")
        if pat.sub("", s_) != want:
            mism += 1
    obs.append(Obligation(PROP, "terms.Interval|iv/trim/axiom-R1", "iv/trim-bounded", "re.sub", PROVED if not mism
                          else REFUTED, detail=f"CPython re.sub agrees with the derived split on {n} concrete field "
                                               f"tuples over {{0,1,10,205}}^7",
                          reason=f"{mism} mismatches", backend="cpython", bounded=f"{n} tuples over {{0,1,10,205}}^7",
                          witness={"family": "call", "oracle": "interval", "args": []}))
    return obs


def bounded_standin(why):
    """the interval code is outside the executor's reach (e.g. the trim is no longer a regular-expression
    substitution): a bounded exhaustive check of the real function stands in - labelled bounded, never proved"""
    import json
    import subprocess
    from ..main import REPLAY_PY
    from ..oblig import BOUNDED_OK, VERIF
    try:
        pr = subprocess.run([REPLAY_PY, os.path.join(VERIF, "replaylib", "batch.py")], input=json.dumps([["interval", []]]),
                            capture_output=True, text=True, timeout=1500, env=dict(os.environ, PYTHONDONTWRITEBYTECODE="1"))
        w = json.loads(pr.stdout)[0]
    except Exception as e:
        return [Obligation(PROP, "terms.Interval|iv/bounded", "iv/bounded", "terms.Interval.get_sql", UNKNOWN,
                           reason=f"{why}; bounded check failed to run: {e!r}")]
    bound = ("all component tuples over {0,3,10,205}^7 x both signs x 6 dialect contexts parsed back with the "
             "designator's layout; shared object across dialects; large components; quarters/weeks")
    if w:
        return [Obligation(PROP, "terms.Interval|iv/bounded", "iv/bounded", "terms.Interval.get_sql", REFUTED,
                           detail=f"bounded check of the real function ({bound})", reason=f"{why}; failing input: {w}",
                           bounded=bound, backend="bounded-exhaustive",
                           witness={"family": "call", "oracle": "interval", "args": []})]
    return [Obligation(PROP, "terms.Interval|iv/bounded", "iv/bounded", "terms.Interval.get_sql", BOUNDED_OK,
                       detail=f"bounded check of the real function ({bound})", reason=why, bounded=bound,
                       backend="bounded-exhaustive")]


def generate(tier="quick"):
    try:
        obs = check_all(None)
        unsup = [o for o in obs if not isinstance(o, tuple) and o.status == UNSUPPORTED]
        crashed = [o for o in obs if isinstance(o, tuple) and "Unsupported" in str(o[-1])]
        if unsup or crashed:
            why = (unsup[0].reason if unsup else str(crashed[0][-1]).strip().splitlines()[-1])[:300]
            obs = [o for o in obs if not isinstance(o, tuple) and o.status != UNSUPPORTED] + \
                bounded_standin(f"outside the executor's subset: {why}")
    except Unsupported as e:
        obs = bounded_standin(f"outside the executor's subset: {e}")
    return obs, {"functions": ["pypika_tortoise.terms.Interval.__init__", "pypika_tortoise.terms.Interval.get_sql"],
                 "assumptions": ["axiom R1: Python's re.sub removes, scanning left to right, the leftmost match of the "
                                 "first alternative that matches (greedy); cross-checked bounded against CPython",
                                 "D10: fields are read as integers in the designator's layout; only the leading "
                                 "non-zero component may be negative",
                                 "str(int) of a positive integer is a numeral [1-9][0-9]*"]}
