"""Shared analysis of render functions (everything that takes a `ctx`): runs, flattened nested-render call
sites, context-field comparison."""
from __future__ import annotations

import z3

from ..driver import run_function
from ..front import repo
from ..smt import conj
from ..values import B, Fn, I, IteV, K, Obj, S, Sym
from .base import canon, grouped_targets

DIALECT_PART = ["quote_char", "secondary_quote_char", "alias_quote_char", "dialect", "as_keyword", "parameterizer",
                "groupby_alias", "orderby_alias"]
POSITION_PART = ["subquery", "with_alias", "with_namespace", "subcriterion"]


def has_ctx(fi) -> bool:
    a = fi.node.args
    return any(p.arg == "ctx" for p in a.posonlyargs + a.args + a.kwonlyargs)


def render_funcs(r):
    return [fi for fi in sorted(r.funcs.values(), key=lambda f: f.qual)
            if fi.cls is not None and has_ctx(fi) and "overload" not in fi.decorators]


def render_targets(r):
    return grouped_targets(r, render_funcs(r))


def flat_calls(effects, guard=None, in_loop=False):
    """all contract-call effects, including those inside loop bodies: (effect, guard, in_loop)"""
    out = []
    for ef in effects:
        g = ef.guard if guard is None else (guard if ef.guard is None else z3.And(guard, ef.guard))
        if ef.kind == "call":
            out.append((ef, g, in_loop))
        elif ef.kind == "loop":
            for bg, body in ef.body:
                gg = bg if g is None else z3.And(g, bg)
                out.extend(flat_calls(body, gg, True))
    return out


def is_ctx_value(ex, state, v) -> bool:
    if isinstance(v, IteV):
        return is_ctx_value(ex, state, v.a) or is_ctx_value(ex, state, v.b)
    if isinstance(v, K):
        return type(v.v).__name__ == "SqlContext"
    if isinstance(v, Sym):
        return bool(v.tags) and v.tags <= {"context.SqlContext", "NoneType"} and "context.SqlContext" in v.tags
    if isinstance(v, Obj):
        h = state.heap.get(v.oid)
        return h is not None and ((h.cls is not None and h.cls.name == "SqlContext") or
                                  (h.tags is not None and "context.SqlContext" in h.tags))
    return False


def ctx_arg(ex, state, ef):
    """the context value passed to a nested render call"""
    if "ctx" in ef.kwargs:
        return ef.kwargs["ctx"]
    for a in ef.args:
        if is_ctx_value(ex, state, a):
            return a
    return None


def resolve(ex, pc, v):
    """collapse IteV nodes whose condition is decided by pc"""
    while isinstance(v, IteV):
        if ex.smt.implied(pc, v.c):
            v = v.a
        elif ex.smt.implied(pc, z3.Not(v.c)):
            v = v.b
        else:
            return IteV(v.c, resolve(ex, pc + [v.c], v.a), resolve(ex, pc + [z3.Not(v.c)], v.b))
    return v


def effective_ctx(ex, ci, ctxp):
    """the context a render function works under: its parameter, or the default of the builder's query class when
    the parameter is None (outermost call)"""
    if isinstance(ctxp, Sym) and ctxp.tags and "NoneType" in ctxp.tags:
        default = getattr(ci.live, "QUERY_CLS", None)
        default = getattr(default, "SQL_CONTEXT", None) or getattr(ci.live, "SQL_CONTEXT", None)
        if default is not None:
            return IteV(ex.truth(ctxp), ctxp, K(default))
    return ctxp


def field_of(ex, state, cv, field):
    """value of field `field` of context value cv (None when not determinable)"""
    if isinstance(cv, IteV):
        a, b = field_of(ex, state, cv.a, field), field_of(ex, state, cv.b, field)
        if a is None or b is None:
            return None
        if same_value(ex, a, b):
            return a
        return IteV(cv.c, a, b)
    if isinstance(cv, K):
        if cv.v is None:
            return None
        return ex.lift_live(getattr(cv.v, field))
    if isinstance(cv, Sym):
        if cv.path in ex.path_obj and ex.path_obj[cv.path] in state.heap:
            cv = Obj(ex.path_obj[cv.path])
        else:
            return symbolic_field(ex, cv.path, field)
    if isinstance(cv, Obj):
        h = state.heap.get(cv.oid)
        while h is not None:
            if field in h.attrs:
                return h.attrs[field]
            if h.parent is None:
                break
            h = state.heap.get(h.parent)
        if h is not None and not h.fresh:
            return symbolic_field(ex, h.path, field)
    return None


def symbolic_field(ex, path, field):
    from contracts.invariants import SLOTS
    spec = SLOTS["context.SqlContext"][field]
    saved = ex.st
    return ex.make_sym(f"{path}.{field}", spec)


def same_value(ex, a, b) -> bool:
    try:
        if a == b:
            return True
    except Exception:
        pass
    if isinstance(a, IteV) and isinstance(b, IteV):
        return a.c.eq(b.c) and same_value(ex, a.a, b.a) and same_value(ex, a.b, b.b)
    if isinstance(a, (B, K)) and isinstance(b, (B, K)):
        try:
            fa, fb = ex.truth(a), ex.truth(b)
            return ex.smt.check([], z3.Xor(fa, fb)) == "unsat"
        except Exception:
            return False
    if isinstance(a, S) and isinstance(b, S):
        return a.atoms == b.atoms
    return False


def value_is(ex, pc, v, const) -> str:
    """'yes' if pc => v == const, 'no' if pc => v != const, else 'maybe' (for booleans)"""
    if isinstance(v, K):
        return "yes" if v.v == const else "no"
    if isinstance(v, (B, IteV, Sym, I)) and isinstance(const, bool):
        f = ex.truth(v)
        want = f if const else z3.Not(f)
        if ex.smt.implied(pc, want):
            return "yes"
        if ex.smt.implied(pc, z3.Not(want)):
            return "no"
        return "maybe"
    return "maybe"


def recv_key(ex, ef, state=None) -> str:
    """semantic name of the receiver slot of a nested call"""
    import re
    r = ef.recv
    if isinstance(r, Sym):
        p = r.path
    elif isinstance(r, Obj) and state is not None and r.oid in state.heap:
        p = state.heap[r.oid].path
    elif isinstance(r, Fn):
        p = f"<{r.kind}>"
    else:
        p = repr(r)
    p = re.sub(r"\[\*[^\]]*\]", "[*]", p)
    return canon(p)


def equal_under(ex, pc, a, b, depth=0) -> bool:
    """a == b on every case of the Ite conditions occurring in them that is feasible under pc"""
    a, b = resolve(ex, pc, a), resolve(ex, pc, b)
    if same_value(ex, a, b):
        return True
    for v in (a, b):
        if isinstance(v, IteV) and depth < 6:
            ok = True
            for c in (v.c, z3.Not(v.c)):
                if ex.smt.feasible(pc + [c]):
                    ok = ok and equal_under(ex, pc + [c], a, b, depth + 1)
            return ok
    return False


_SPEC_CACHE = {}


def spec_func(modname: str, fname: str, in_module: str = "pypika_tortoise.queries"):
    """FuncInfo for a specification function of contracts/spec/<modname>.py, resolved in the name space of a
    package module"""
    import ast
    import os
    from ..front import FuncInfo
    from ..oblig import VERIF
    key = (modname, fname, in_module)
    if key not in _SPEC_CACHE:
        src = open(os.path.join(VERIF, "contracts", "spec", modname + ".py")).read()
        tree = ast.parse(src)
        node = [n for n in tree.body if isinstance(n, ast.FunctionDef) and n.name == fname][0]
        mod = repo().modules[in_module]
        _SPEC_CACHE[key] = FuncInfo(fname, f"spec.{modname}.{fname}", node, mod, None, [], "function")
    return _SPEC_CACHE[key]


def eval_spec(ex, state, modname, fname, args, in_module="pypika_tortoise.queries", kwargs=None):
    """evaluate a specification function symbolically on `state`; returns the (merged) result value"""
    fi = spec_func(modname, fname, in_module)
    saved = ex.st
    ex.st = state.snapshot()
    saved_frames = ex.frames
    ex.frames = []
    saved_deadline = ex.deadline
    ex.deadline = None
    try:
        outs = ex.explore(lambda: ex.call_body(fi, list(args), dict(kwargs or {})), start=ex.st)
        vals = [(o.state.pc[len(state.pc):], o.value) for o in outs if o.status == "normal"]
        if len(vals) == 1:
            return vals[0][1]
        cur = None
        from ..smt import conj
        for pc, v in reversed(vals):
            cur = v if cur is None else ex.ite_val(conj(pc), v, cur)
        return cur
    finally:
        ex.st = saved
        ex.frames = saved_frames
        ex.deadline = saved_deadline
