"""C02 - rendering is a pure, repeatable, process-independent function.

O-PURE: every render / observer method writes only to objects allocated in the call, plus appends to the
caller-supplied `ctx.parameterizer.values`.  O-DET: no hash-ordered set is iterated where the order can reach the
result.  Lemma L-FRAME + determinism of the remaining (functional) Python semantics give: repeated, interleaved,
concurrent and cross-process renders return identical text and parameter lists.
"""
from __future__ import annotations

import re

import z3

from ..driver import run_function
from ..front import repo
from ..oblig import PROVED, REFUTED, UNKNOWN, UNSUPPORTED, Obligation
from .base import canon, classes_using, grouped_targets, parallel

PROP = "C02"
RENDER_NAME = re.compile(
    r"^(get_sql|.*_sql|__str__|__repr__|__hash__|__eq__|__ne__|fields_|tables_|nodes_|find_|get_table_name|"
    r"is_aggregate|get_parameterized_sql|get_formatted_value|_recursive_get_sql|left_needs_parens|"
    r"right_needs_parens|needs_brackets|_list_aliases|_orderby_field|_column_clauses|_period_for_clauses|"
    r"_unique_key_clauses|_primary_key_clause|_top_sql|star|field)$")
MODULE_FUNCS = ["utils.format_quotes", "utils.format_alias_sql", "utils.resolve_is_aggregate"]


def is_render(fi):
    return bool(RENDER_NAME.match(fi.name)) and "builder" not in fi.decorators and "overload" not in fi.decorators


def targets(r):
    funcs = [fi for fi in sorted(r.funcs.values(), key=lambda f: f.qual) if fi.cls is not None and is_render(fi)]
    out = grouped_targets(r, funcs)
    for m in MODULE_FUNCS:
        out.append(("pypika_tortoise." + m, None, []))
    return out


def allowed(w) -> bool:
    if w.owned:
        return True
    p = canon(w.path)
    return w.kind == "append" and (p == "ctx.parameterizer.values" or p.endswith(".parameterizer.values")
                                   and p.startswith("ctx"))


def check_one(item):
    fq, cq, covered = item
    r = repo()
    fi = r.funcs[fq]
    ci = r.classes[cq] if cq else None
    name = f"{fi.short}@{ci.short}" if ci else fi.short
    cov = f" [same code path for {len(covered)} classes]" if len(covered) > 1 else ""
    run = run_function(fi, ci)
    if fi.qual.endswith("utils.format_quotes"):
        pass
    if run.error:
        return [Obligation(PROP, f"{name}|pure", "pure/supported", fi.short, UNSUPPORTED, reason=run.error)]
    obs = []
    sites = {}
    for o in run.outcomes:
        for w in o.state.writes:
            key = f"{w.kind}:{canon(w.path)}.{w.attr}".rstrip(".")
            ok = allowed(w)
            if key not in sites or (sites[key][0] and not ok):
                sites[key] = (ok, w)
    nown = sum(1 for k, (ok, w) in sites.items() if ok and w.owned)
    bad = [(k, w) for k, (ok, w) in sites.items() if not ok]
    for k, (ok, w) in sorted(sites.items()):
        if ok and not w.owned:
            obs.append(Obligation(PROP, f"{name}|pure/param-append|{k}", "pure/param-append", fi.short, PROVED,
                                  detail="append to the caller-owned parameterizer.values (the one allowed write)"))
    if not bad:
        obs.append(Obligation(PROP, f"{name}|pure/write", "pure/write", fi.short, PROVED,
                              detail=f"{len(run.outcomes)} paths; {nown} write sites, all to objects allocated in "
                                     f"the call{cov}"))
    for k, w in bad:
        obs.append(Obligation(PROP, f"{name}|pure/write|{k}", "pure/write", fi.short, REFUTED,
                              detail=f"{w.func} line {w.lineno} writes ({w.kind}) to {canon(w.path)}"
                                     f"{'.' + w.attr if w.attr else ''}, which exists before the call",
                              reason=f"path condition: {z3.simplify(w.guard)}",
                              witness={"family": "pure", "func": fi.qual, "cls": cq or ""}))
    rets = [o for o in run.outcomes if o.status == "return"]
    excs = {str(o.value[0]) for o in run.outcomes if o.status == "raise" and o.value}
    if rets or excs == {"NotImplementedError"}:
        obs.append(Obligation(PROP, f"{name}|pure/reachable", "pure/reachable", fi.short, PROVED,
                              detail=f"cover: {len(rets)} returning paths (the contract is not vacuous)"))
    else:
        obs.append(Obligation(PROP, f"{name}|pure/reachable", "pure/reachable", fi.short, UNKNOWN,
                              reason=f"no returning path (vacuous verification): all paths raise {sorted(excs)}"))
    notes = sorted({canon(n) for n in run.ex.notes_global})
    setit = [n for n in notes if n.startswith("set-iter:")]
    if not setit:
        obs.append(Obligation(PROP, f"{name}|pure/det", "pure/det", fi.short, PROVED,
                              detail="no hash-ordered container is iterated in an order-sensitive position"))
    for n in setit:
        obs.append(Obligation(PROP, f"{name}|pure/det|{n}", "pure/det", fi.short, REFUTED,
                              detail=f"iteration order of a set reaches an ordered result: {n}",
                              reason=n, witness={"family": "pure", "func": fi.qual, "cls": cq or ""}))
    for n in notes:
        if n.startswith("opaque"):
            obs.append(Obligation(PROP, f"{name}|pure/opaque|{n}", "pure/opaque", fi.short, UNKNOWN,
                                  reason=f"call with unknown effect: {n}"))
    return obs


def state_targets(r):
    from . import c01
    out = [("builder", fq, cq) for fq, cq in c01.targets(r)]
    for ci in sorted(r.classes.values(), key=lambda c: c.qual):
        if "__init__" in ci.methods:
            out.append(("init", ci.methods["__init__"].qual, ci.qual))
    return out


def check_state(item):
    """state/iterable: no builder or constructor stores a one-shot iterator (generator) in an object - rendering
    would consume it, so a second render would differ although no attribute is written"""
    from . import c01
    kind, fq, cq = item
    r = repo()
    fi, ci = r.funcs[fq], r.classes[cq]
    name = f"{fi.short}@{ci.short}"
    run = run_function(fi, ci, pre=c01._pre if kind == "builder" else None, self_fresh=(kind == "init"))
    if run.error:
        return [Obligation(PROP, f"{name}|state/iterable", "state/iterable", fi.short, UNSUPPORTED, reason=run.error)]
    gens = sorted({canon(n) for n in run.ex.notes_global if n.startswith("gen-stored:")})
    if not gens:
        return [Obligation(PROP, f"{name}|state/iterable", "state/iterable", fi.short, PROVED,
                           detail="every value stored into an object is re-iterable (no generator object stored)")]
    return [Obligation(PROP, f"{name}|state/iterable|{g}", "state/iterable", fi.short, REFUTED,
                       detail=f"a generator object is stored ({g}); rendering consumes it",
                       reason=g, witness={"family": "pure", "func": fq, "cls": cq}) for g in gens]


def _dispatch(item):
    if item[0] in ("builder", "init"):
        return check_state(item)
    return check_one(item)


def generate(tier="quick"):
    r = repo()
    t = targets(r)
    obs = parallel(_dispatch, t + state_targets(r))
    # a function that cannot return for an (abstract) base class is not vacuous if it returns for another class
    ok_funcs = {o.func for o in obs if not isinstance(o, tuple) and o.kind == "pure/reachable" and o.status == PROVED}
    obs = [o for o in obs if isinstance(o, tuple) or not (o.kind == "pure/reachable" and o.status == UNKNOWN
                                                          and o.func in ok_funcs)]
    return obs, {"functions": sorted({x[0] for x in t}),
                                    "closed_world": sorted({c for x in t for c in x[2]}),
                                    "assumptions": ["frozen dataclass SqlContext: no object.__setattr__ in the package "
                                                    "(checked syntactically)",
                                                    "lemma L-FRAME (lemmas/Frame.lean) lifts per-call purity to render "
                                                    "histories; thread interleavings: steps writing only a "
                                                    "caller-owned accumulator commute (paper argument)"]}
