"""C02 - rendering is a pure, repeatable, process-independent function.

O-PURE: every render / observer method writes only to objects allocated in the call, plus appends to the
caller-supplied `ctx.parameterizer.values`.  O-DET: no hash-ordered set is iterated where the order can reach the
result.  Lemma L-FRAME + determinism of the remaining (functional) Python semantics give: repeated, interleaved,
concurrent and cross-process renders return identical text and parameter lists.
"""
from __future__ import annotations

import re

import z3

from ..driver import run_function
from ..front import repo
from ..oblig import PROVED, REFUTED, UNKNOWN, UNSUPPORTED, Obligation
from ..values import Obj
from .base import canon, classes_using, grouped_targets, parallel

PROP = "C02"
RENDER_NAME = re.compile(
    r"^(get_sql|.*_sql|__str__|__repr__|__hash__|__eq__|__ne__|fields_|tables_|nodes_|find_|get_table_name|"
    r"is_aggregate|get_parameterized_sql|get_formatted_value|_recursive_get_sql|left_needs_parens|"
    r"right_needs_parens|needs_brackets|_list_aliases|_orderby_field|_column_clauses|_period_for_clauses|"
    r"_unique_key_clauses|_primary_key_clause|_top_sql|star|field)$")
MODULE_FUNCS = ["utils.format_quotes", "utils.format_alias_sql", "utils.resolve_is_aggregate"]


def is_render(fi):
    return bool(RENDER_NAME.match(fi.name)) and "builder" not in fi.decorators and "overload" not in fi.decorators


def targets(r):
    funcs = [fi for fi in sorted(r.funcs.values(), key=lambda f: f.qual) if fi.cls is not None and is_render(fi)]
    out = grouped_targets(r, funcs)
    for m in MODULE_FUNCS:
        out.append(("pypika_tortoise." + m, None, []))
    return out


def allowed(w) -> bool:
    if w.owned:
        return True
    p = canon(w.path)
    return w.kind == "append" and (p == "ctx.parameterizer.values" or p.endswith(".parameterizer.values")
                                   and p.startswith("ctx"))


def check_one(item):
    fq, cq, covered = item
    r = repo()
    fi = r.funcs[fq]
    ci = r.classes[cq] if cq else None
    name = f"{fi.short}@{ci.short}" if ci else fi.short
    cov = f" [same code path for {len(covered)} classes]" if len(covered) > 1 else ""
    run = run_function(fi, ci)
    if fi.qual.endswith("utils.format_quotes"):
        pass
    if run.error:
        return [Obligation(PROP, f"{name}|pure", "pure/supported", fi.short, UNSUPPORTED, reason=run.error)]
    obs = []
    sites = {}
    for o in run.outcomes:
        for w in o.state.writes:
            key = f"{w.kind}:{canon(w.path)}.{w.attr}".rstrip(".")
            ok = allowed(w)
            if key not in sites or (sites[key][0] and not ok):
                sites[key] = (ok, w)
    nown = sum(1 for k, (ok, w) in sites.items() if ok and w.owned)
    bad = [(k, w) for k, (ok, w) in sites.items() if not ok]
    for k, (ok, w) in sorted(sites.items()):
        if ok and not w.owned:
            obs.append(Obligation(PROP, f"{name}|pure/param-append|{k}", "pure/param-append", fi.short, PROVED,
                                  detail="append to the caller-owned parameterizer.values (the one allowed write)"))
    if not bad:
        obs.append(Obligation(PROP, f"{name}|pure/write", "pure/write", fi.short, PROVED,
                              detail=f"{len(run.outcomes)} paths; {nown} write sites, all to objects allocated in "
                                     f"the call{cov}"))
    for k, w in bad:
        obs.append(Obligation(PROP, f"{name}|pure/write|{k}", "pure/write", fi.short, REFUTED,
                              detail=f"{w.func} line {w.lineno} writes ({w.kind}) to {canon(w.path)}"
                                     f"{'.' + w.attr if w.attr else ''}, which exists before the call",
                              reason=f"path condition: {z3.simplify(w.guard)}",
                              witness={"family": "pure", "func": fi.qual, "cls": cq or ""}))
    rets = [o for o in run.outcomes if o.status == "return"]
    excs = {str(o.value[0]) for o in run.outcomes if o.status == "raise" and o.value}
    if rets or excs == {"NotImplementedError"}:
        obs.append(Obligation(PROP, f"{name}|pure/reachable", "pure/reachable", fi.short, PROVED,
                              detail=f"cover: {len(rets)} returning paths (the contract is not vacuous)"))
    else:
        obs.append(Obligation(PROP, f"{name}|pure/reachable", "pure/reachable", fi.short, UNKNOWN,
                              reason=f"no returning path (vacuous verification): all paths raise {sorted(excs)}"))
    notes = sorted({canon(n) for n in run.ex.notes_global})
    setit = [n for n in notes if n.startswith("set-iter:")]
    if not setit:
        obs.append(Obligation(PROP, f"{name}|pure/det", "pure/det", fi.short, PROVED,
                              detail="no hash-ordered container is iterated in an order-sensitive position"))
    for n in setit:
        obs.append(Obligation(PROP, f"{name}|pure/det|{n}", "pure/det", fi.short, REFUTED,
                              detail=f"iteration order of a set reaches an ordered result: {n}",
                              reason=n, witness={"family": "pure", "func": fi.qual, "cls": cq or ""}))
    for n in notes:
        if n.startswith("opaque"):
            obs.append(Obligation(PROP, f"{name}|pure/opaque|{n}", "pure/opaque", fi.short, UNKNOWN,
                                  reason=f"call with unknown effect: {n}"))
    return obs


def state_targets(r):
    from . import c01
    out = [("builder", fq, cq) for fq, cq in c01.targets(r)]
    for ci in sorted(r.classes.values(), key=lambda c: c.qual):
        if "__init__" in ci.methods:
            out.append(("init", ci.methods["__init__"].qual, ci.qual))
    # public helpers that build terms without being builders (isin, between, join variants, ...): once per function
    seen = set()
    for fq, cq in c01.public_targets(r):
        if fq not in seen:
            seen.add(fq)
            out.append(("public", fq, cq))
    return out


def _order_stored(run) -> bool:
    """does an ordered container that is returned or stored into an object take its elements from an iterated set?"""
    from ..values import Obj,  Elems, IteV, MapPart, PreSeq, Tu
    marks = getattr(run.ex, "set_part_reprs", set())
    if not marks:
        return True         # symbolic / constant set: be conservative
    def part_from_set(p, depth=0):
        if repr(p) in marks:
            return True
        if isinstance(p, MapPart) and depth < 6:
            return any(part_from_set(q, depth + 1) for q in p.seq)
        return False

    def value_has(state, v, seen, depth=0):
        if depth > 6:
            return False
        if isinstance(v, IteV):
            return value_has(state, v.a, seen, depth + 1) or value_has(state, v.b, seen, depth + 1)
        if isinstance(v, Tu):
            return any(part_from_set(p) for p in v.parts) or any(
                value_has(state, it, seen, depth + 1) for p in v.parts if isinstance(p, Elems) for it in p.items)
        if isinstance(v, Obj) and v.oid in state.heap and v.oid not in seen:
            seen.add(v.oid)
            h = state.heap[v.oid]
            if h.kind == "list" and any(part_from_set(p) for p in h.parts):
                return True
            if h.kind in ("list", "set"):
                for p in h.parts:
                    if isinstance(p, Elems) and any(value_has(state, it, seen, depth + 1) for it in p.items):
                        return True
                    if isinstance(p, MapPart):
                        for _g, items in p.alts:
                            if any(value_has(state, it, seen, depth + 1) for it in items):
                                return True
            if h.fresh and h.kind == "inst":
                return any(value_has(state, av, seen, depth + 1) for av in h.attrs.values())
        return False
    for o in run.outcomes:
        seen = set()
        if o.status == "return" and value_has(o.state, o.value, seen):
            return True
        for w in o.state.writes:
            if w.value is not None and value_has(o.state, w.value, seen):
                return True
    return False


def check_state(item):
    """state/iterable: no builder or constructor stores a one-shot iterator (generator) in an object - rendering
    would consume it, so a second render would differ although no attribute is written"""
    from . import c01
    kind, fq, cq = item
    r = repo()
    fi, ci = r.funcs[fq], r.classes[cq]
    name = f"{fi.short}@{ci.short}"
    run = run_function(fi, ci, pre=c01._pre if kind in ("builder", "public") else None, self_fresh=(kind == "init"))
    if run.error:
        return [Obligation(PROP, f"{name}|state/iterable", "state/iterable", fi.short, UNSUPPORTED, reason=run.error)]
    gens = sorted({canon(n) for n in run.ex.notes_global if n.startswith("gen-stored:")})
    out = []
    if not gens:
        out.append(Obligation(PROP, f"{name}|state/iterable", "state/iterable", fi.short, PROVED,
                              detail="every value stored into an object is re-iterable (no generator object stored)"))
    out += [Obligation(PROP, f"{name}|state/iterable|{g}", "state/iterable", fi.short, REFUTED,
                       detail=f"a generator object is stored ({g}); rendering consumes it",
                       reason=g, witness={"family": "pure", "func": fq, "cls": cq}) for g in gens]
    # state/order: the tree a builder / constructor / helper builds does not depend on the iteration order of a
    # hash-ordered container (the rendering of that tree would differ between processes)
    setit = sorted({canon(n) for n in run.ex.notes_global if n.startswith("set-iter:")})
    if setit and not _order_stored(run):
        setit = []          # the set is only searched / tested (any, all, membership, error message): nothing ordered is kept
    if not setit:
        out.append(Obligation(PROP, f"{name}|state/order", "state/order", fi.short, PROVED,
                              detail="no hash-ordered container is iterated in an order-sensitive position"))
    out += [Obligation(PROP, f"{name}|state/order|{n}", "state/order", fi.short, REFUTED,
                       detail="a hash-ordered container is iterated in an order-sensitive position while building state",
                       reason=n, witness={"family": "pure", "func": fq, "cls": cq}) for n in setit]
    return out


def _dispatch(item):
    if item[0] in ("builder", "init", "public"):
        return check_state(item)
    return check_one(item)


def generate(tier="quick"):
    r = repo()
    t = targets(r)
    obs = parallel(_dispatch, t + state_targets(r))
    # a function that cannot return for an (abstract) base class is not vacuous if it returns for another class
    ok_funcs = {o.func for o in obs if not isinstance(o, tuple) and o.kind == "pure/reachable" and o.status == PROVED}
    obs = [o for o in obs if isinstance(o, tuple) or not (o.kind == "pure/reachable" and o.status == UNKNOWN
                                                          and o.func in ok_funcs)]
    return obs, {"functions": sorted({x[0] for x in t}),
                                    "closed_world": sorted({c for x in t for c in x[2]}),
                                    "assumptions": ["frozen dataclass SqlContext: no object.__setattr__ in the package "
                                                    "(checked syntactically)",
                                                    "lemma L-FRAME (lemmas/Frame.lean) lifts per-call purity to render "
                                                    "histories; thread interleavings: steps writing only a "
                                                    "caller-owned accumulator commute (paper argument)"]}
