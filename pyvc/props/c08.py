"""C08 - one dialect's conventions govern the whole statement tree.

O-CTX (DESIGN §4.4): at every nested render the *dialect part* of the context (quote characters, dialect,
as_keyword, parameterizer, group/order-by alias policy) is the one the function received - or, for an outermost
call without context, the default of the builder's own query class.  SqlContext.copy is verified against its
functional contract (ctx/copy).  A package object formatted through str() inside a render bypasses the context
(ctx/str-bypass).
"""
from __future__ import annotations

import z3

from ..driver import run_function
from ..front import repo
from ..oblig import PROVED, REFUTED, UNKNOWN, UNSUPPORTED, Obligation
from ..values import B, Fn, IteV, K, Obj, S, Sym
from .base import canon, parallel
from contracts.spec.dialects import NO_GROUPBY_ALIAS
from .render import (value_is, DIALECT_PART, POSITION_PART, ctx_arg, effective_ctx, field_of, flat_calls, recv_key,
                     render_targets, resolve, same_value, equal_under)

PROP = "C08"
MIN_OBLIGATIONS = 150


def allowed_override(fi, ci, field, passed) -> bool:
    """the one override the property lists as a dialect convention: a dialect builder fixing groupby_alias=False
    for its whole subtree"""
    if field == "parameterizer" and fi.name == "get_parameterized_sql":
        return True         # the property: a fresh Parameterizer is installed per call when none is given
    if field == "groupby_alias" and isinstance(passed, K) and passed.v is False:
        qb = repo().cls("queries.QueryBuilder")
        return ci is not None and qb in ci.mro
    return False


def check_one(item):
    fq, cq, covered = item
    r = repo()
    fi, ci = r.funcs[fq], r.classes[cq]
    name = f"{fi.short}@{ci.short}"
    run = run_function(fi, ci)
    if run.error:
        return [Obligation(PROP, f"{name}|ctx", "ctx/supported", fi.short, UNSUPPORTED, reason=run.error)]
    ex = run.ex
    obs = []
    sites = {}          # (recv, field) -> (ok, reason)
    conv = {}
    bypass = {}
    ctxp = run.params.get("ctx")
    eff = effective_ctx(ex, ci, ctxp) if ctxp is not None else None
    # every package class that renders itself through get_sql (terms, selectables, Interval, ...)
    term_like = frozenset(c.short for c in r.classes.values()
                          if c.resolve("get_sql") and c.resolve("get_sql")[0] == "func")
    for o in run.outcomes:
        if o.status == "raise":
            continue
        ex.st = o.state
        for ef, g, in_loop in flat_calls(o.state.effects):
            pcg = o.state.pc + ([g] if g is not None else [])
            if ef.method == "__str__":
                rk = recv_key(ex, ef, o.state)
                tags = ef.recv_tags
                # opaque user values (slot type `value`) are plain data by the class invariant (C04 param/plain-data)
                if getattr(ef.recv, "label", "") != "value" and (tags is None or tags & term_like) and \
                        ex.smt.feasible(pcg):
                    bypass[rk] = f"str() of {rk} renders it under its own default context, not under ctx"
                continue
            if ef.method not in ("get_sql", "get_formatted_value", "_recursive_get_sql"):
                continue
            cv = ctx_arg(ex, o.state, ef)
            if cv is None or eff is None:
                continue
            if not ex.smt.feasible(pcg):
                continue
            rk = recv_key(ex, ef, o.state)
            for field in DIALECT_PART:
                passed = field_of(ex, o.state, cv, field)
                incoming = field_of(ex, o.state, eff, field)
                key = (rk, field)
                if passed is None or incoming is None:
                    ok, why = None, "context value not determinable"
                else:
                    passed, incoming = resolve(ex, pcg, passed), resolve(ex, pcg, incoming)
                    if equal_under(ex, pcg, passed, incoming) or allowed_override(fi, ci, field, passed):
                        ok, why = True, ""
                    else:
                        ok, why = False, f"passed {passed!r} but received {incoming!r}"
                prev = sites.get(key)
                if prev is None or (prev[0] is True and ok is not True):
                    sites[key] = (ok, why)
                if field == "groupby_alias" and fi.name == "get_sql" and ci.short in NO_GROUPBY_ALIAS \
                        and passed is not None:
                    v = value_is(ex, pcg, passed, False)
                    if conv.get(rk, "yes") == "yes":
                        conv[rk] = v
    by_recv = {}
    for (rk, field), (ok, why) in sites.items():
        by_recv.setdefault(rk, []).append((field, ok, why))
    for rk, lst in sorted(by_recv.items()):
        bad = [(f, why) for f, ok, why in lst if ok is False]
        unk = [(f, why) for f, ok, why in lst if ok is None]
        if not bad and not unk:
            obs.append(Obligation(PROP, f"{name}|ctx/dialect|{rk}", "ctx/dialect", fi.short, PROVED,
                                  detail=f"nested render of {rk} receives the dialect part of ctx unchanged "
                                         f"({len(lst)} components)"))
        for f, why in bad:
            obs.append(Obligation(PROP, f"{name}|ctx/dialect|{rk}|{f}", "ctx/dialect", fi.short, REFUTED,
                                  detail=f"nested render of {rk}: context component {f} differs from the incoming one",
                                  reason=why, witness={"family": "call", "oracle": "dialect_nesting",
                                                       "args": [fi.short, ci.short, rk, f]}))
        for f, why in unk:
            obs.append(Obligation(PROP, f"{name}|ctx/dialect|{rk}|{f}", "ctx/dialect", fi.short, UNKNOWN, reason=why))
    for rk, v in sorted(conv.items()):
        obs.append(Obligation(PROP, f"{name}|ctx/convention|groupby_alias|{rk}", "ctx/convention", fi.short,
                              PROVED if v == "yes" else REFUTED,
                              detail=f"{ci.short} renders {rk} with groupby_alias == False whatever context it is "
                                     f"given (the dialect forbids GROUP BY <alias>)",
                              reason="" if v == "yes" else "groupby_alias is taken from the incoming context",
                              witness={"family": "call", "oracle": "groupby_convention", "args": [ci.short]}))
    for rk, why in sorted(bypass.items()):
        obs.append(Obligation(PROP, f"{name}|ctx/str-bypass|{rk}", "ctx/str-bypass", fi.short, REFUTED,
                              detail=why, reason=why,
                              witness={"family": "call", "oracle": "dialect_nesting", "args": [fi.short, ci.short, rk, "str"]}))
    if not by_recv and not bypass:
        obs.append(Obligation(PROP, f"{name}|ctx/dialect", "ctx/dialect", fi.short, PROVED,
                              detail="no nested render call (leaf): nothing to propagate"))
    return obs


def check_copy(_item):
    """ctx/copy: SqlContext.copy(**kw) equals self except exactly at the keys of kw (12 x 2 cases)"""
    from contracts.invariants import SLOTS
    r = repo()
    fi = r.func("context.SqlContext.copy")
    ci = r.cls("context.SqlContext")
    fields = list(SLOTS["context.SqlContext"])
    obs = []
    from ..driver import run_function as rf
    from ..symex import Exec
    from ..driver import tags
    for field in fields + [None]:
        ex = Exec(r, tags(r))
        selfo = ex.alloc("inst", False, "self", cls=ci)
        kw = {}
        if field is not None:
            kw[field] = Sym("NEW", None)
        outs = ex.explore(lambda: ex.call_function(fi, [selfo], dict(kw), selfo))
        ok, why = True, ""
        if len(outs) != 1 or outs[0].status != "normal":
            ok, why = False, f"{len(outs)} paths / status {[o.status for o in outs]}"
        else:
            o = outs[0]
            ex.st = o.state
            res = o.value
            fresh = isinstance(res, Obj) and o.state.heap[res.oid].fresh and o.state.heap[res.oid].cls == ci
            if not fresh:
                ok, why = False, "result is not a freshly allocated SqlContext"
            else:
                for f in fields:
                    got = field_of(ex, o.state, res, f)
                    want = kw[f] if f == field else field_of(ex, o.state, selfo, f)
                    if got is None or not same_value(ex, got, want):
                        ok, why = False, f"component {f}: got {got!r}, contract says {want!r}"
                        break
            if o.state.writes and any(not w.owned for w in o.state.writes):
                ok, why = False, "copy writes to an existing object"
        label = field or "<no keyword>"
        obs.append(Obligation(PROP, f"context.SqlContext.copy|ctx/copy|{label}", "ctx/copy", fi.short,
                              PROVED if ok else REFUTED,
                              detail=f"copy({label}=NEW) returns a fresh context equal to self except at {label}",
                              reason=why, witness={"family": "call", "oracle": "ctx_copy", "args": [label]}))
    return obs


def _dispatch(item):
    if item[0] == "$copy":
        return check_copy(item)
    return check_one(item)


def check_json_quote():
    """ctx/json-quote: the text of a JSON literal is JSON (strings in double quotes) whatever the dialect: the
    identifier quote characters of the context do not occur in it (only in the alias suffix)"""
    from ..values import IteA
    from .positions import shape_of
    r = repo()
    ci = r.cls("terms.JSON")
    fi = ci.resolve("get_sql")[1]
    run = run_function(fi, ci)
    name = f"{fi.short}@{ci.short}"
    if run.error:
        return [Obligation(PROP, f"{name}|ctx/json-quote", "ctx/json-quote", fi.short, UNSUPPORTED, reason=run.error)]
    ex = run.ex
    bad = []
    for o in run.outcomes:
        if o.status != "return":
            continue
        ex.st = o.state
        ex.frames = []
        sh = shape_of(ex, o.value)
        body = [a for a in sh.atoms if not (isinstance(a, IteA) and "self.alias" in repr(a))]
        txt = repr(body)
        for q in ("ctx.quote_char", "ctx.alias_quote_char", "ctx.secondary_quote_char"):
            if q in txt and q != "ctx.secondary_quote_char":
                bad.append(f"the JSON text depends on {q}")
    return [Obligation(PROP, f"{name}|ctx/json-quote", "ctx/json-quote", fi.short, REFUTED if bad else PROVED,
                       detail="no identifier quote character of the context inside a JSON literal",
                       reason="; ".join(sorted(set(bad))),
                       witness={"family": "call", "oracle": "json_dialect", "args": []})]


def check_setop_wrap():
    """ctx/setop-wrap: whether the operands of a set operation are bracketed is the convention of the governing
    (base) statement's dialect for every operand, not each operand's own"""
    r = repo()
    ci = r.cls("queries._SetOperation")
    fi = ci.resolve("get_sql")[1]
    run = run_function(fi, ci)
    name = f"{fi.short}@{ci.short}"
    if run.error:
        return [Obligation(PROP, f"{name}|ctx/setop-wrap", "ctx/setop-wrap", fi.short, UNSUPPORTED, reason=run.error)]
    ex = run.ex
    bad, n = [], 0
    for o in run.outcomes:
        if o.status == "raise":
            continue
        ex.st = o.state
        for ef, g, _l in flat_calls(o.state.effects):
            if ef.method != "get_sql" or ef.recv is None:
                continue
            rk = recv_key(ex, ef, o.state)
            if not (rk == "self.base_query" or rk.startswith("self._set_operation")):
                continue
            n += 1
            cv = ctx_arg(ex, o.state, ef)
            fv = field_of(ex, o.state, cv, "subquery") if cv is not None else None
            if fv is None or "self.base_query.wrap_set_operation_queries" not in repr(fv) or \
                    repr(fv).count("wrap_set_operation_queries") != 1:
                bad.append(f"{rk} is rendered with subquery={fv!r}")
    return [Obligation(PROP, f"{name}|ctx/setop-wrap", "ctx/setop-wrap", fi.short, REFUTED if bad or not n else PROVED,
                       detail=f"{n} operand render(s) take the bracketing flag from self.base_query.wrap_set_operation_queries",
                       reason="; ".join(sorted(set(bad))[:2]) or ("" if n else "no operand render found"),
                       witness={"family": "call", "oracle": "dialect_nesting", "args": []})]


def generate(tier="quick"):
    r = repo()
    t = render_targets(r)
    obs = parallel(_dispatch, [("$copy", None, [])] + t)
    # ctx/stateless: a render function that writes to the object it renders can carry what it saw of one context
    # (dialect, quote characters) into the next call - the purity obligations of C02 for every get_sql
    from . import c02, c05
    for ob in parallel(c02.check_one, [x for x in c02.targets(r) if x[0].endswith(".get_sql")]):
        if isinstance(ob, tuple):
            obs.append(ob)
        elif ob.kind == "pure/write":
            ob.prop, ob.kind = PROP, "ctx/stateless"
            ob.key = ob.key.replace("|pure/write", "|ctx/stateless")
            obs.append(ob)
    # ctx/escape: the escaping convention of string / JSON literals follows the dialect of the context (the
    # lit/computes obligations of C05 under the MySQL dialect and lit/position)
    for ob in c05.generate(tier)[0]:
        if isinstance(ob, tuple):
            obs.append(ob)
        elif ob.kind in ("lit/computes", "lit/position") and (ob.kind == "lit/position" or "mysql" in ob.key):
            ob.prop = PROP
            ob.key = ob.key.replace("|lit/", "|ctx/escape/")
            ob.kind = "ctx/escape"
            obs.append(ob)
    obs += check_json_quote()
    obs += check_setop_wrap()
    return obs, {"functions": sorted({x[0] for x in t}) + ["pypika_tortoise.context.SqlContext.copy"],
                 "closed_world": sorted({c for x in t for c in x[2]}),
                 "assumptions": ["a context component counts as unchanged only if it is syntactically the incoming "
                                 "value (or provably equal for booleans); D3: objects built with another dialect's "
                                 "classes are outside the quantifier"]}
