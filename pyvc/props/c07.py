"""C07 - user-supplied names are emitted as single, correctly quoted identifiers.

quote/func        format_quotes(name, q) must lex as one delimited identifier denoting name: q ++ esc_q(name) ++ q.
quote/site        in the result shape of every render function each name-typed datum (declared in
                  contracts/invariants.py: table/schema/column/index/alias/CTE names ...) occurs only inside
                  format_quotes(., ctx.quote_char) - aliases: ctx.alias_quote_char or ctx.quote_char.
quote/template    no name flows into the template of str.format (braces in it would be parsed).
quote/ctx-consts  every dialect context has a non-empty identifier quote and writes aliases with the same quote
                  as references."""
from __future__ import annotations

import z3

from ..driver import run_function
from ..front import repo
from ..oblig import PROVED, REFUTED, UNKNOWN, UNSUPPORTED, Obligation
from ..values import CallA, Dyn, IteA, IteV, JoinA, K, Lit, OpA, QuoteA, S, Sym
from .base import canon, parallel
from .positions import shape_of
from .render import flat_calls, recv_key, render_targets

PROP = "C07"


def is_name(v) -> bool:
    return isinstance(v, Sym) and v.label == "name"


DEFAULTS = set()


def quote_ok(q, for_alias: bool) -> bool:
    if isinstance(q, Sym) and q.path == "ctx.quote_char":
        return True
    if isinstance(q, K) and isinstance(q.v, str) and q.v and q.v in DEFAULTS:
        return True          # outermost call without context: the query class's own identifier quote
    if isinstance(q, IteV):
        return quote_ok(q.a, for_alias) and quote_ok(q.b, for_alias) or (
            isinstance(q.a, Sym) and q.a.path == "ctx.alias_quote_char" and quote_ok(q.b, for_alias))
    if isinstance(q, IteV) and isinstance(q.a, Sym) and q.a.path == "ctx.alias_quote_char" and \
            isinstance(q.b, Sym) and q.b.path == "ctx.quote_char":
        return True
    return False


def scan(atoms, quoted_by, out):
    """out.append((name sym, quoting value or None))"""
    for a in atoms:
        if isinstance(a, Dyn):
            if is_name(a.v):
                out.append((a.v, quoted_by))
        elif isinstance(a, QuoteA):
            scan(a.inner, a.q if quoted_by is None else quoted_by, out)
        elif isinstance(a, IteA):
            scan(a.a, quoted_by, out)
            scan(a.b, quoted_by, out)
        elif isinstance(a, JoinA):
            scan(a.body, quoted_by, out)
            scan(a.sep, quoted_by, out)
        elif isinstance(a, OpA):
            for x in a.args:
                if isinstance(x, S):
                    scan(x.atoms, "op:" + a.op if quoted_by is None else quoted_by, out)


def check_one(item):
    fq, cq, covered = item
    r = repo()
    fi, ci = r.funcs[fq], r.classes[cq]
    name = f"{fi.short}@{ci.short}"
    run = run_function(fi, ci)
    if run.error:
        return [Obligation(PROP, f"{name}|quote/site", "quote/site", fi.short, UNSUPPORTED, reason=run.error)]
    ex = run.ex
    sites = {}
    DEFAULTS.clear()
    for attr in ("QUERY_CLS", ):
        qc = getattr(ci.live, attr, None)
        c = getattr(qc, "SQL_CONTEXT", None) or getattr(ci.live, "SQL_CONTEXT", None)
        if c is not None:
            DEFAULTS.update({c.quote_char, c.alias_quote_char or c.quote_char})
    if fi.name == "_list_aliases":
        return []            # returns a list of names, not SQL text
    for o in run.outcomes:
        if o.status != "return":
            continue
        ex.st = o.state
        ex.frames = []
        try:
            sh = shape_of(ex, o.value)
        except Exception:
            continue
        found = []
        scan(sh.atoms, None, found)
        for sym, q in found:
            key = canon(sym.path).replace("[*]", "")
            import re
            key = re.sub(r"\[\*[^\]]*\]", "[*]", canon(sym.path))
            if q is None:
                ok, why = False, f"{key} is emitted without identifier quotes"
            elif isinstance(q, str):
                ok, why = False, f"{key} is passed through {q} before / instead of being quoted"
            elif not quote_ok(q, key.endswith(".alias")):
                ok, why = False, f"{key} is quoted with {q!r}, not with the context's identifier quote"
            else:
                ok, why = True, ""
            if key not in sites or (sites[key][0] and not ok):
                sites[key] = (ok, why)
    obs = []
    for key, (ok, why) in sorted(sites.items()):
        obs.append(Obligation(PROP, f"{name}|quote/site|{key}", "quote/site", fi.short, PROVED if ok else REFUTED,
                              detail=f"{key} reaches the SQL text only through format_quotes with the context's quote",
                              reason=why, witness={"family": "call", "oracle": "identifier_site",
                                                   "args": [fi.short, ci.short, key]}))
    # quote/emit: the classes that ARE a named thing print their name, quoted, on every path of get_sql
    EMIT = {"terms.Field": "name", "queries.Table": "_table_name", "terms.Index": "name", "queries.Column": "name",
            "queries.Schema": "_name"}
    if fi.name == "get_sql" and ci.short in EMIT:
        want = "self." + EMIT[ci.short]

        def present(atoms):
            acc = z3.BoolVal(False)
            for a in atoms:
                if isinstance(a, QuoteA) and any(isinstance(x, Dyn) and isinstance(x.v, Sym) and x.v.path == want
                                                 for x in a.inner):
                    return z3.BoolVal(True)
                if isinstance(a, IteA):
                    acc = z3.Or(acc, z3.If(a.c, present(a.a), present(a.b)))
            return acc
        ok, why, n = True, "", 0
        for o in run.outcomes:
            if o.status != "return":
                continue
            n += 1
            ex.st = o.state
            ex.frames = []
            try:
                sh = shape_of(ex, o.value)
            except Exception:
                continue
            if not ex.smt.implied(list(o.state.pc), z3.simplify(present(sh.atoms))):
                ok, why = False, f"a path renders {str(sh)[:200]} without the quoted {want}"
        if n:
            obs.append(Obligation(PROP, f"{name}|quote/emit|{want}", "quote/emit", fi.short, PROVED if ok else REFUTED,
                                  detail=f"every rendering of a {ci.name} contains its quoted {EMIT[ci.short]}",
                                  reason=why, witness={"family": "call", "oracle": "name_store", "args": [ci.short]}))
    # a package object formatted through str() renders its names with the quote character of its own default
    # context instead of the context's
    named = frozenset(c.short for c in r.classes.values()
                      if c.resolve("get_sql") and c.resolve("get_sql")[0] == "func")
    byp = {}
    for o in run.outcomes:
        if o.status == "raise":
            continue
        ex.st = o.state
        for ef, g, _l in flat_calls(o.state.effects):
            if ef.method == "__str__" and getattr(ef.recv, "label", "") != "value" and \
                    (ef.recv_tags is None or ef.recv_tags & named) and \
                    ex.smt.feasible(o.state.pc + ([g] if g is not None else [])):
                byp[recv_key(ex, ef, o.state)] = True
    for rk in sorted(byp):
        obs.append(Obligation(PROP, f"{name}|quote/str-bypass|{rk}", "quote/str-bypass", fi.short, REFUTED,
                              detail=f"{rk} is formatted with str(): its names are quoted with the default context's "
                                     "quote character, not the context's",
                              reason="str() of a package object inside a render function",
                              witness={"family": "call", "oracle": "identifier_site", "args": [fi.short, ci.short, rk]}))
    for n in sorted({canon(n) for n in ex.notes_global if n.startswith("dyn-template:")}):
        obs.append(Obligation(PROP, f"{name}|quote/template|{n.split(':')[1]}", "quote/template", fi.short, REFUTED,
                              detail="a datum is part of a str.format template: braces in it are parsed as "
                                     "replacement fields", reason=n[:300],
                              witness={"family": "call", "oracle": "identifier_site", "args": [fi.short, ci.short, "{"]}))
    if not obs:
        obs.append(Obligation(PROP, f"{name}|quote/site", "quote/site", fi.short, PROVED,
                              detail="no name-typed datum is emitted directly by this function"))
    return obs


def check_static(_item):
    r = repo()
    obs = []
    # format_quotes itself
    fi = r.func("utils.format_quotes")
    run = run_function(fi, None, overrides={"value": "name", "quote_char": "str"})
    ex = run.ex
    ex.no_contract.add(fi)
    run = run_function(fi, None, overrides={"value": "name", "quote_char": "str"})
    ok, why = False, run.error or ""
    # the body is executed (no_contract is per executor, so run it by hand)
    from ..driver import tags
    from ..symex import Exec
    ex = Exec(r, tags(r))
    ex.no_contract.add(fi)
    v = ex.make_sym("value", "name")
    q = ex.make_sym("quote_char", "str")
    outs = ex.explore(lambda: ex.call_function(fi, [v, q], {}))
    doubled = True
    for o in outs:
        txt = repr(o.value)
        if "replace" not in txt:
            doubled = False
            why = f"format_quotes(name, q) computes {o.value!r}: an embedded quote character is not doubled, so a " \
                  f"name containing it ends the identifier early"
    obs.append(Obligation(PROP, "utils.format_quotes|quote/func", "quote/func", fi.short,
                          PROVED if doubled else REFUTED,
                          detail="format_quotes(name, q) == q ++ replace(name, q, qq) ++ q", reason=why,
                          witness={"family": "call", "oracle": "identifier_quote_char", "args": []}))
    # dialect context constants
    for short in ("queries.Query", "dialects.mysql.MySQLQuery", "dialects.postgresql.PostgreSQLQuery",
                  "dialects.sqlite.SQLLiteQuery", "dialects.mssql.MSSQLQuery", "dialects.oracle.OracleQuery"):
        c = r.cls(short).live.SQL_CONTEXT
        ok = bool(c.quote_char) and (c.alias_quote_char or c.quote_char) == c.quote_char
        obs.append(Obligation(PROP, f"{short}|quote/ctx-consts", "quote/ctx-consts", short, PROVED if ok else REFUTED,
                              backend="constant", detail=f"{short}.SQL_CONTEXT: identifier quote {c.quote_char!r}, "
                                                         f"aliases written with the same quote",
                              reason="" if ok else f"quote_char={c.quote_char!r} alias_quote_char={c.alias_quote_char!r}",
                              witness={"family": "call", "oracle": "identifier_quote_char", "args": []}))
    return obs


def check_store(cq):
    """name/store: every name-typed slot a constructor fills holds the argument it was given, unmodified (a name is one
    identifier: it is not split, trimmed, re-cased or concatenated when it is stored)"""
    from contracts.invariants import SLOTS
    from ..values import IteV
    r = repo()
    ci = r.classes[cq]
    fi = ci.resolve("__init__")[1]
    run = run_function(fi, ci, self_fresh=True)
    name = f"{fi.short}@{ci.short}"
    if run.error:
        return [Obligation(PROP, f"{name}|name/store", "name/store", fi.short, UNSUPPORTED, reason=run.error)]
    ex = run.ex
    bad, seen = {}, set()

    def plain(v):
        if isinstance(v, IteV):
            return plain(v.a) and plain(v.b)
        if isinstance(v, S):
            return all(isinstance(a, Lit) for a in v.atoms)      # a constant
        if isinstance(v, Sym):
            return "(" not in v.path      # an argument (or an element/attribute of one), not the result of an operation
        return isinstance(v, K)
    for o in run.outcomes:
        if o.status == "raise":
            continue
        for oid, h in o.state.heap.items():
            if not h.fresh or h.cls is None:
                continue
            for k in h.cls.mro:
                for attr, spec in SLOTS.get(k.short, {}).items():
                    if not (spec.split("|")[0] == "name") or attr not in h.attrs:
                        continue
                    seen.add(f"{h.cls.short}.{attr}")
                    v = h.attrs[attr]
                    if not plain(v):
                        bad[f"{h.cls.short}.{attr}"] = f"stores {v!r}"[:200]
    obs = []
    for key in sorted(seen):
        obs.append(Obligation(PROP, f"{name}|name/store|{key}", "name/store", fi.short,
                              REFUTED if key in bad else PROVED,
                              detail=f"{key} holds a name argument as given (or a constant)", reason=bad.get(key, ""),
                              witness={"family": "call", "oracle": "name_store", "args": [ci.short]}))
    return obs


def check_store_func(fq):
    """name/store for a module-level factory: names given as strings reach the created objects whole"""
    import re
    from contracts.invariants import SLOTS
    r = repo()
    fi = r.funcs[fq]
    run = run_function(fi, None, overrides={"*names": "name"})
    name = fi.short
    if run.error:
        return [Obligation(PROP, f"{name}|name/store", "name/store", fi.short, UNSUPPORTED, reason=run.error)]
    bad, n = [], 0
    for o in run.outcomes:
        if o.status == "raise":
            continue
        for h in o.state.heap.values():
            if not h.fresh or h.cls is None:
                continue
            for k in h.cls.mro:
                for attr, spec in SLOTS.get(k.short, {}).items():
                    if spec.split("|")[0] != "name" or attr not in h.attrs:
                        continue
                    n += 1
                    v = h.attrs[attr]
                    txt = repr(v)
                    if re.search(r"\$names\[[^\]]*\](\.\d+|\[-?\d+\]|\[-?\d*:-?\d*\]|\.\w+\()", txt):
                        bad.append(f"{h.cls.name}.{attr} holds {txt[:80]}: a piece of the name given, not the name")
    return [Obligation(PROP, f"{name}|name/store", "name/store", fi.short, REFUTED if bad else PROVED,
                       detail=f"{n} name slot(s) of the created objects hold the given names whole",
                       reason="; ".join(sorted(set(bad))[:2]),
                       witness={"family": "call", "oracle": "name_store", "args": ["make_tables"]})]


def _dispatch(item):
    if item[0] == "$store-func":
        return check_store_func(item[1])
    if item[0] == "$static":
        return check_static(item)
    if item[0] == "$store":
        return check_store(item[1])
    return check_one(item)


def generate(tier="quick"):
    r = repo()
    t = render_targets(r)
    from contracts.invariants import SLOTS
    stores = []
    for ci in sorted(r.classes.values(), key=lambda c: c.qual):
        res = ci.resolve("__init__")
        if not res or res[0] != "func":
            continue
        if any(spec.split("|")[0] == "name" for k in ci.mro for spec in SLOTS.get(k.short, {}).values()) or \
                ci.short in ("queries.Table", "queries.Schema", "queries.Database"):
            stores.append(("$store", ci.qual, []))
    stores.append(("$store-func", "pypika_tortoise.queries.make_tables", []))
    obs = parallel(_dispatch, [("$static", None, [])] + stores + t)
    # quote/qualifier: the qualifier of a column / star reference is the quoted alias of its source, else its name -
    # the identifier under which FROM introduces that source (the ns/field and ns/star name obligations of C11)
    from . import c11
    for it in (("ns/field", "pypika_tortoise.terms.Field.get_sql", "pypika_tortoise.terms.Field"),
               ("ns/star", "pypika_tortoise.terms.Star.get_sql", "pypika_tortoise.terms.Star")):
        for ob in c11.leaf(it):
            if ob.key.endswith("/name"):
                ob.prop, ob.kind = PROP, "quote/qualifier"
                ob.key = ob.key.replace("|ns/", "|quote/qualifier/")
                obs.append(ob)
    return obs, {"functions": sorted({x[0] for x in t}) + ["pypika_tortoise.utils.format_quotes"],
                 "closed_world": sorted({c for x in t for c in x[2]}),
                 "assumptions": ["which data are names is declared in contracts/invariants.py (label `name`): table, "
                                 "schema, column, index, alias, CTE, period names, FOR UPDATE OF targets; Function.name, "
                                 "PseudoColumn.name, LiteralValue, collate, Cast.as_type, MySQL modifiers are SQL text "
                                 "by contract"]}
