"""C12 - aliases are written at defining positions only (obligations alias/site, alias/class-on, alias/class-off from
positions.py) and an alias is *referenced* only where the same statement defines it:

alias/ref   in every _group_sql / _orderby_sql the branch that prints the alias of a GROUP BY / ORDER BY item instead
            of the item itself is guarded by membership of that alias in the set of aliases of the select list AS IT IS
            AT RENDER TIME (a set built inside the function from ..._selects), never in builder-maintained state."""
from __future__ import annotations

import re

import z3

from ..driver import run_function
from ..front import repo
from ..oblig import PROVED, REFUTED, UNKNOWN, UNSUPPORTED, Obligation
from ..values import Dyn, IteA, JoinA, MapPart, PreSeq, QuoteA, Sym
from .base import classes_using, parallel
from .positions import generate_for, shape_of

PROP = "C12"


def _atoms(f, acc):
    if z3.is_const(f) and f.decl().kind() == z3.Z3_OP_UNINTERPRETED:
        acc.add(f.decl().name())
    for c in f.children():
        _atoms(c, acc)
    return acc


def alias_refs(atoms, conds, out):
    """(conditions, alias datum path) of every quoted alias that is not the receiver's own alias"""
    for a in atoms:
        if isinstance(a, IteA):
            alias_refs(a.a, conds + [a.c], out)
            alias_refs(a.b, conds + [z3.Not(a.c)], out)
        elif isinstance(a, JoinA):
            alias_refs(a.body, conds, out)
        elif isinstance(a, QuoteA) and len(a.inner) == 1 and isinstance(a.inner[0], Dyn) and \
                isinstance(a.inner[0].v, Sym) and a.inner[0].v.path.endswith(".alias") and \
                a.inner[0].v.path != "self.alias":
            out.append((list(conds), a.inner[0].v.path))


def check_ref(item):
    fq, cq = item
    r = repo()
    fi, ci = r.funcs[fq], r.classes[cq]
    name = f"{fi.short}@{ci.short}"
    run = run_function(fi, ci)
    if run.error:
        return [Obligation(PROP, f"{name}|alias/ref", "alias/ref", fi.short, UNSUPPORTED, reason=run.error)]
    ex = run.ex
    bad, n = [], 0
    for o in run.outcomes:
        if o.status != "return":
            continue
        ex.st = o.state
        ex.frames = []
        sh = shape_of(ex, o.value)
        refs = []
        alias_refs(sh.atoms, list(o.state.pc), refs)
        # sets of select-list aliases computed in this call
        fresh_sets = {}
        for oid, h in o.state.heap.items():
            if h.kind in ("set", "list") and h.fresh and len(h.parts) == 1 and isinstance(h.parts[0], MapPart):
                mp = h.parts[0]
                src = mp.seq[0].path if len(mp.seq) == 1 and isinstance(mp.seq[0], PreSeq) else ""
                items = [repr(i) for _g, its in mp.alts for i in its]
                if src.endswith("._selects") and items and all(i.endswith(".alias") for i in items):
                    fresh_sets[f"map{mp.lid}"] = src
        for conds, path in refs:
            n += 1
            names = set()
            for c in conds:
                names |= _atoms(c, set())
            member = [a for a in names if a.startswith("in!" + path + "|")]
            good = [a for a in member if a.split("|", 1)[1] in fresh_sets]
            if not good:
                bad.append(f"the alias {path} is printed as a reference under "
                           f"{[a for a in member] or 'no membership test'}; select-list alias sets built in this call: "
                           f"{sorted(fresh_sets.values()) or 'none'}")
    return [Obligation(PROP, f"{name}|alias/ref", "alias/ref", fi.short, REFUTED if bad else PROVED,
                       detail=f"{n} alias reference(s): each guarded by membership in the aliases of the current "
                              "select list", reason="; ".join(sorted(set(bad))[:2]),
                       witness={"family": "call", "oracle": "alias_reference", "args": [ci.short]})]


def generate(tier="quick"):
    obs, meta = generate_for(PROP, tier)
    r = repo()
    items = []
    for fi in sorted(r.funcs.values(), key=lambda f: f.qual):
        if fi.name in ("_group_sql", "_orderby_sql") and fi.cls is not None:
            for ci in classes_using(r, fi):
                items.append((fi.qual, ci.qual))
    obs = list(obs) + parallel(check_ref, items)
    return obs, meta
