"""C12 - aliases are emitted exactly once, where they define a name (obligations alias/site, alias/class-on,
alias/class-off; see positions.py and contracts/spec/positions.py)."""
from .positions import generate_for

PROP = "C12"


def generate(tier="quick"):
    return generate_for(PROP, tier)
