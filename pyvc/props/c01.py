"""C01 - builder calls never alter the receiver or earlier-derived objects.

Obligation family O-FRAME (DESIGN §4.1): every @builder method, executed through the real `utils.builder`
wrapper on an arbitrary pre-state receiver in immutable mode, writes only to objects allocated during the call
(the copy made by the decorator, containers re-copied by __copy__, objects it constructs).  The only allowed
writes to other objects are the automatic alias of an un-aliased argument (from_/join/do_join).
Lemma L-FRAME (lemmas/Frame.lean) lifts the per-call frame to all call histories.
"""
from __future__ import annotations

import z3

from ..driver import run_function
from ..front import repo
from ..oblig import PROVED, REFUTED, UNKNOWN, UNSUPPORTED, Obligation
from ..values import Fn, K, Obj, Sym
from .base import canon, classes_using, parallel

PROP = "C01"


def targets(r):
    out = []
    for fi in sorted(r.funcs.values(), key=lambda f: f.qual):
        if "builder" in fi.decorators and fi.cls is not None:
            for ci in classes_using(r, fi):
                out.append((fi.qual, ci.qual))
    return out


def _pre(ex, self_obj, params):
    # precondition: default immutable mode
    ex.pre_immutable = True
    h = ex.hobj(self_obj)
    ci = h.cls
    if ex.slot_spec(ci, "immutable") is not None:
        h.attrs["immutable"] = K(True)


def allowed_alias_write(ex, w, params) -> bool:
    """the one side effect the property allows: alias of an un-aliased argument"""
    if w.kind != "attr" or w.attr != "alias":
        return False
    root = w.path.split(".")[0].split("[")[0]
    if root == "self" or root not in params:
        return False
    isnone = ex.smt.tag_in(w.path + ".alias", frozenset({"NoneType"}))
    return ex.smt.implied([w.guard], isnone)


def is_fresh(ex, state, v) -> bool:
    from ..values import IteV
    if isinstance(v, IteV):
        return is_fresh(ex, state, v.a) and is_fresh(ex, state, v.b)
    if isinstance(v, Obj):
        return state.heap[v.oid].fresh
    if isinstance(v, Sym):
        return v.path in getattr(ex, "fresh_paths", ())
    return False


def check_one(item):
    fq, cq = item
    r = repo()
    fi, ci = r.funcs[fq], r.classes[cq]
    name = f"{fi.short}@{ci.short}"
    run = run_function(fi, ci, pre=_pre)
    obs = []
    if run.error:
        return [Obligation(PROP, f"{name}|frame", "frame/supported", fi.short, UNSUPPORTED, reason=run.error)]
    ex = run.ex
    sites = {}
    # precondition "default immutable mode": every `immutable` flag the decorator may consult is on
    # (a Not wrapper delegates the lookup to the term it wraps)
    immut = [a for k, a in ex.smt.atoms.items() if k.endswith(".immutable")]
    outcomes = [o for o in run.outcomes if ex.smt.feasible(o.state.pc + immut)]
    run.outcomes = outcomes
    for o in run.outcomes:
        for w in o.state.writes:
            if not ex.smt.feasible([w.guard] + immut):
                continue
            key = f"{w.kind}:{canon(w.path)}.{w.attr}".rstrip(".")
            ok = w.owned or allowed_alias_write(ex, w, run.params)
            prev = sites.get(key)
            if prev is None or (prev[0] and not ok):
                sites[key] = (ok, w, o)
    for key, (ok, w, o) in sorted(sites.items()):
        kind = "frame/write" if w.owned or not ok else "frame/arg-alias"
        if ok:
            obs.append(Obligation(PROP, f"{name}|{kind}|{key}", kind, fi.short, PROVED,
                                  detail=f"write {w.kind} to {canon(w.path)} in {w.func}: target "
                                         f"{'allocated in this call' if w.owned else 'argument alias, guarded by alias is None'}"))
        else:
            obs.append(Obligation(PROP, f"{name}|frame/write|{key}", "frame/write", fi.short, REFUTED,
                                  detail=f"write {w.kind} to {canon(w.path)} ({w.attr or 'container'}) in {w.func} "
                                         f"line {w.lineno}: target is neither fresh nor owned by the copy",
                                  reason=f"path condition: {z3.simplify(w.guard)}",
                                  witness={"family": "frame", "func": fi.qual, "cls": ci.qual, "path": canon(w.path),
                                           "kind": w.kind, "attr": w.attr}))
    # result: a new object (the copy, or something allocated in the call), never the receiver
    bad = None
    nret = 0
    for o in run.outcomes:
        if o.status != "return":
            continue
        nret += 1
        v = o.value
        if not is_fresh(ex, o.state, v):
            bad = (o, v)
    if nret:
        if bad is None:
            obs.append(Obligation(PROP, f"{name}|frame/result", "frame/result", fi.short, PROVED,
                                  detail=f"all {nret} returning paths return an object allocated in the call"))
        else:
            obs.append(Obligation(PROP, f"{name}|frame/result", "frame/result", fi.short, REFUTED,
                                  detail="a returning path returns an object that existed before the call",
                                  reason=f"value {bad[1]!r} under {z3.simplify(z3.And(bad[0].state.pc)) if bad[0].state.pc else True}",
                                  witness={"family": "frame-result", "func": fi.qual, "cls": ci.qual}))
    notes = {n for o in run.outcomes for n in o.state.notes}
    for n in sorted(notes):
        if n.startswith("opaque"):
            obs.append(Obligation(PROP, f"{name}|frame/opaque|{n}", "frame/opaque", fi.short, UNKNOWN,
                                  reason=f"call with unknown effect: {n}"))
    return obs


IN_PLACE_BY_CONTRACT = {"do_join"}       # internal mutators that the builders call on their own copy


def public_targets(r):
    """public methods of classes that have builder methods, which are neither builders themselves nor render /
    observer methods (those are the subject of C02): join variants, operator helpers, factory shortcuts ..."""
    out, seen = [], set()
    for ci in sorted(r.classes.values(), key=lambda c: c.qual):
        if not any("builder" in f.decorators for k in ci.mro for f in k.methods.values()):
            continue
        for k in ci.mro:
            for n, f in k.methods.items():
                if n.startswith("_") or "builder" in f.decorators or f.kind != "method" or n in IN_PLACE_BY_CONTRACT:
                    continue
                if n.endswith("_sql") or n in ("get_sql", "nodes_", "fields_", "find_", "get_parameterized_sql"):
                    continue
                res = ci.resolve(n)
                if not res or res[0] != "func" or res[1] is not f:
                    continue
                key = (f.qual, ci.qual)
                if key not in seen:
                    seen.add(key)
                    out.append(key)
    return out


def check_public(item):
    """frame/public: a public method that is not a builder leaves every object that existed before the call untouched"""
    fq, cq = item
    r = repo()
    fi, ci = r.funcs[fq], r.classes[cq]
    name = f"{fi.short}@{ci.short}"
    run = run_function(fi, ci, pre=_pre)
    if run.error:
        return [Obligation(PROP, f"{name}|frame/public", "frame/public", fi.short, UNSUPPORTED, reason=run.error)]
    ex = run.ex
    bad = {}
    for o in run.outcomes:
        for w in o.state.writes:
            if w.owned or allowed_alias_write(ex, w, run.params) or not ex.smt.feasible(o.state.pc + [w.guard]):
                continue
            bad[f"{w.kind}:{canon(w.path)}.{w.attr}".rstrip(".")] = w
    if not bad:
        return [Obligation(PROP, f"{name}|frame/public", "frame/public", fi.short, PROVED,
                           detail=f"{fi.name}() writes only to objects it allocates (and the alias of an un-aliased "
                                  "argument)")]
    return [Obligation(PROP, f"{name}|frame/public|{k}", "frame/public", fi.short, REFUTED,
                       detail=f"{fi.name}() is not a builder (no copy is made) and writes {w.kind} to {canon(w.path)} "
                              f"({w.attr or 'container'}) in {w.func} line {w.lineno}",
                       reason=f"path condition: {z3.simplify(w.guard)}",
                       witness={"family": "frame", "func": fi.qual, "cls": ci.qual, "path": canon(w.path),
                                "kind": w.kind, "attr": w.attr}) for k, w in sorted(bad.items())]


def _dispatch(item):
    return check_public(item[1:]) if item[0] == "$public" else check_one(item)


def generate(tier="quick"):
    r = repo()
    items = list(targets(r)) + [("$public",) + t for t in public_targets(r)]
    return parallel(_dispatch, items), {"functions": sorted({t[0] for t in targets(r)} | {t[0] for t in public_targets(r)})}
