"""C16 - replace_table replaces every reference and nothing else.

slots/replace   for every class, each child slot that the real get_sql renders (derived on every run) is rebuilt by the
                real replace_table: either replace_table is called on it, or it is a table-valued slot assigned
                `new_table` under `== current_table`.
slots/callee    every receiver of a nested replace_table call has that method (a Table / Cte does not: the dynamic
                attribute lookup turns the call into Field(...)(), a TypeError).
slots/eq-bool   every concrete row-source class (Selectable) resolves __eq__ to a bool-valued function: replace_table
                decides with `source == current_table`.
slots/frame     the receiver is left untouched and the result is a new object (the C01 frame obligations of the
                replace_table builders).
Lemma (paper, structural induction): rendering of x.replace_table(o, n) equals the rendering of the same
construction with n for o."""
from __future__ import annotations

import z3

from ..driver import run_function
from ..front import repo
from ..oblig import PROVED, REFUTED, UNKNOWN, UNSUPPORTED, Obligation
from ..values import Obj, Sym
from .base import canon, classes_using, parallel
from .render import flat_calls, recv_key
from .slots import render_slots

PROP = "C16"


def slot_tags(ci):
    """possible classes of the values rendered at each slot (from the render call sites)"""
    res = ci.resolve("get_sql")
    run = run_function(res[1], ci)
    out = {}
    if run.error:
        return out
    ex = run.ex
    for o in run.outcomes:
        if o.status == "raise":
            continue
        ex.st = o.state
        for ef, g, _l in flat_calls(o.state.effects):
            if ef.method == "get_sql" and ef.recv_tags:
                rk = recv_key(ex, ef, o.state)
                if rk.startswith("self."):
                    out.setdefault(rk.replace("[*]", "").split(".")[1], set()).update(ef.recv_tags)
    return out


def _allowed_of(ex, f, path):
    """the kind universe the executor used for the kind tests on `path` inside formula f (None when there is none)"""
    stack = [f]
    while stack:
        x = stack.pop()
        tf = ex.smt.tagforms.get(x.get_id())
        if tf is not None and tf[0] == path:
            return (tf[2],)
        stack.extend(x.children())
    return None


def _dump(state, v, depth=0, seen=None):
    """textual dump of a value through the heap (attribute values, container parts)"""
    seen = set() if seen is None else seen
    out = [repr(v)]
    from ..values import IteV as _IteV
    if isinstance(v, _IteV):
        out += [_dump(state, v.a, depth, seen), _dump(state, v.b, depth, seen)]
    if isinstance(v, Obj) and v.oid in state.heap and v.oid not in seen and depth < 4:
        seen.add(v.oid)
        h = state.heap[v.oid]
        out.append(repr(h.parts))
        if h.fresh:
            for av in h.attrs.values():
                out.append(_dump(state, av, depth + 1, seen))
        for p in (h.parts or ()):
            for it in getattr(p, "items", ()) or ():
                out.append(_dump(state, it, depth + 1, seen))
            for _g, items in getattr(p, "alts", ()) or ():
                for it in items:
                    out.append(_dump(state, it, depth + 1, seen))
    return " ".join(out)


def stored_in_result(o, slot) -> bool:
    """the returned object's slot holds the result of a nested replace_table on the receiver's slot, or new_table"""
    import re
    from ..values import IteV as _IteV

    def objs(v):
        if isinstance(v, _IteV):
            return objs(v.a) + objs(v.b)
        return [v] if isinstance(v, Obj) else []
    found = False
    for ov in objs(o.value):
        h = o.state.heap.get(ov.oid)
        if h is None or not h.fresh:
            continue
        if slot not in h.attrs:
            return False        # the returned copy still shares the receiver's slot value
        found = True
        txt = _dump(o.state, h.attrs[slot])
        if not (re.search(r"\$self\." + re.escape(slot) + r"[^ ,()]*\.replace_table\(", txt) or "$new_table" in txt):
            return False
    return True


def check_class(cq):
    from . import c01
    r = repo()
    ci = r.classes[cq]
    name = ci.short
    rs, err = render_slots(ci)
    res = ci.resolve("replace_table")
    if rs is None or not res or res[0] != "func":
        return []
    fi = res[1]
    if not rs and fi.cls.name == "Term":
        return [Obligation(PROP, f"{name}|slots/replace", "slots/replace", fi.short, PROVED,
                           detail=f"{ci.name} renders no child and has no table: the inherited no-op is correct")]
    run = run_function(fi, ci, pre=c01._pre)
    if run.error:
        return [Obligation(PROP, f"{name}|slots/replace", "slots/replace", fi.short, UNSUPPORTED, reason=run.error)]
    ex = run.ex
    replaced, assigned, bad_callee = set(), set(), {}
    replaced_full = set()
    assigned_exact = set()
    has = {c.short for c in r.classes.values() if c.resolve("replace_table") and c.resolve("replace_table")[0] == "func"}
    for o in run.outcomes:
        if o.status == "raise":
            continue
        ex.st = o.state
        for ef, g, _l in flat_calls(o.state.effects):
            if ef.method != "replace_table":
                continue
            rk = recv_key(ex, ef, o.state)
            if rk.startswith("self."):
                replaced.add(rk.replace("[*]", "").split(".")[1])
                replaced_full.add(rk)
            if ef.recv_tags is not None:
                pkg = [t for t in ef.recv_tags if t != "NoneType" and ("pypika_tortoise." + t) in r.classes]
                missing = sorted(t for t in pkg if t not in has)
                # definite only: every possible receiver class lacks the method
                if missing and len(missing) == len(pkg) and \
                        ex.smt.feasible(o.state.pc + ([g] if g is not None else [])):
                    bad_callee[rk] = missing
        for w in o.state.writes:
            if w.kind == "attr" and isinstance(w.value, Sym) and w.value.path == "new_table":
                assigned.add(w.attr)
        # list comprehensions `new_table if t == current_table else t` over a table list
        if isinstance(o.value, Obj):
            h = o.state.heap.get(o.value.oid)
            for k, v in (h.attrs.items() if h else ()):
                if "new_table" in repr(v) or (isinstance(v, Obj) and "new_table" in repr(o.state.heap[v.oid].parts)):
                    assigned.add(k)
                if "$new_table" in repr(v) or (isinstance(v, Obj) and "$new_table" in repr(o.state.heap[v.oid].parts)):
                    assigned_exact.add(k)       # the new table itself is stored there (table-valued slot)
    # slots whose values may be objects with a replace_table of their own need the recursive call even if the
    # slot is also table-valued (FROM holds tables and sub-queries)
    need_call = {}
    tags_of = slot_tags(ci)
    for slot, tg in tags_of.items():
        need_call[slot] = bool(tg & has)
    # path-sensitive coverage: on every returning path, a present slot is rebuilt
    uncovered = {}
    narrow = {}
    node_kinds = ex.tags.sub(r.cls("terms.Node"))
    for o in run.outcomes:
        if o.status != "return":
            continue
        ex.st = o.state

        def walk(effects, outer, acc, in_loop=False):
            for ef in effects:
                g = outer if (ef.guard is None or in_loop) else (ef.guard if outer is None else z3.And(outer, ef.guard))
                if ef.kind == "call" and ef.method == "replace_table":
                    rk = recv_key(ex, ef, o.state)
                    if rk.startswith("self."):
                        acc.setdefault(rk.replace("[*]", "").split(".")[1], []).append(g)
                elif ef.kind == "loop":
                    for bg, body in ef.body:
                        walk(body, g, acc, True)
                        # the element-wise guard of the rebuild must hold for every kind of element that is rendered
                        for e2 in body:
                            rpath = e2.recv.path if isinstance(e2.recv, Sym) else (
                                o.state.heap[e2.recv.oid].path if isinstance(e2.recv, Obj) and e2.recv.oid in o.state.heap
                                else None)
                            if e2.kind == "call" and e2.method == "replace_table" and rpath:
                                rk2 = recv_key(ex, e2, o.state)
                                slot2 = rk2.replace("[*]", "").split(".")[1] if rk2.startswith("self.") else None
                                can2 = frozenset(t for t in tags_of.get(slot2, ()) if t in has) if slot2 else frozenset()
                                gg = bg if e2.guard is None else z3.And(bg, e2.guard)
                                allowed2 = _allowed_of(ex, gg, rpath)
                                if slot2 in assigned_exact or allowed2 is None:
                                    continue        # table-valued slot (replaced by assignment) / no kind test in the guard
                                allowed2 = allowed2[0]
                                names2 = can2 if allowed2 is None else (can2 & allowed2)
                                names2 = names2 & node_kinds        # operands are Nodes (class invariant)
                                if names2 and ex.smt.feasible(o.state.pc + [ex.smt.tag_in(rpath, names2, allowed2),
                                                                             z3.Not(gg)]):
                                    narrow[rk2] = (f"elements of {rk2} are rebuilt only under {z3.simplify(gg)}; get_sql "
                                                   f"renders elements of kinds {sorted(can2)[:6]}...")
        acc = {}
        walk(o.state.effects, None, acc)
        for slot in {x.replace("[*]", "").split(".")[1] for x in rs}:
            if slot in assigned and slot not in acc and not need_call.get(slot):
                continue
            gs = list(acc.get(slot, []))
            gs += [w.guard for w in o.state.writes if w.kind == "attr" and w.attr == slot and
                   isinstance(w.value, Sym) and w.value.path == "new_table"]
            cov = z3.Or([g if g is not None else z3.BoolVal(True) for g in gs]) if gs else z3.BoolVal(False)
            spec = ex.slot_spec(ci, slot) or ""
            present = []
            if not spec.startswith(("list", "set", "tuple")):
                # a scalar slot has to be rebuilt when it holds an object that has a replace_table / is a table
                can = frozenset(t for t in tags_of.get(slot, ()) if t in has)
                if can:
                    present = [ex.smt.tag_in(f"self.{slot}", can)]
                elif "None" in spec:
                    present = [z3.Not(ex.smt.tag_in(f"self.{slot}", frozenset({"NoneType"})))]
            pcc = o.state.pc + present
            if ex.smt.feasible(pcc) and not ex.smt.implied(pcc, cov):
                uncovered[slot] = f"on the path {z3.simplify(z3.And(o.state.pc)) if o.state.pc else True} the slot is not rebuilt"
            elif ex.smt.feasible(pcc) and not stored_in_result(o, slot):
                uncovered[slot] = ("the rebuilt value (result of the nested replace_table / new_table) is not stored "
                                   f"in slot {slot} of the returned object")
    obs = []
    for slot in sorted({x.replace("[*]", "").split(".")[1] for x in rs}):
        ok = (slot in replaced or (slot in assigned and not need_call.get(slot))) and slot not in uncovered
        obs.append(Obligation(PROP, f"{name}|slots/replace|{slot}", "slots/replace", fi.short,
                              PROVED if ok else REFUTED,
                              detail=f"{ci.name}.replace_table rebuilds the rendered slot {slot}",
                              reason="" if ok else (uncovered.get(slot, "") + " ")[:400] + f"{slot} is rendered by get_sql but replace_table neither calls "
                                                   f"replace_table on it nor assigns the new table to it: the old "
                                                   f"table survives there",
                              witness={"family": "call", "oracle": "replace_slot", "args": [name, slot]}))
    for rk2, why in sorted(narrow.items()):
        obs.append(Obligation(PROP, f"{name}|slots/replace|{rk2.replace('self.', '', 1)}|element-guard", "slots/replace",
                              fi.short, REFUTED, detail=f"every rendered element of {rk2} is rebuilt", reason=why,
                              witness={"family": "call", "oracle": "replace_slot",
                                       "args": [name, rk2.replace("self.", "", 1).split("[")[0]]}))
    # slots/preserve: a replace_table that builds its result with the constructor (instead of the builder copy) carries
    # every other attribute of the receiver over
    from contracts.invariants import SLOTS as _SLOTS
    from ..values import IteV as _IteV
    lost = {}

    def _objs(v):
        if isinstance(v, _IteV):
            return _objs(v.a) + _objs(v.b)
        return [v] if isinstance(v, Obj) else []
    rebuilt_attrs = {x.replace("[*]", "").split(".")[1] for x in rs}
    for o in run.outcomes:
        if o.status != "return":
            continue
        for ov in _objs(o.value):
            h = o.state.heap.get(ov.oid)
            if h is None or not h.fresh or h.parent is not None or h.cls is None or ci not in h.cls.mro and h.cls is not ci:
                continue
            for k in ci.mro:
                for attr in _SLOTS.get(k.short, {}):
                    if attr in rebuilt_attrs or attr not in h.attrs:
                        continue
                    v = h.attrs[attr]
                    if not (isinstance(v, Sym) and v.path == f"self.{attr}"):
                        lost[attr] = f"the result is built by the constructor and its {attr} is {v!r}, not the receiver's"
    for attr, why in sorted(lost.items()):
        obs.append(Obligation(PROP, f"{name}|slots/preserve|{attr}", "slots/preserve", fi.short, REFUTED,
                              detail=f"{ci.name}.replace_table keeps the receiver's {attr}", reason=why,
                              witness={"family": "call", "oracle": "replace_slot", "args": [name, attr]}))
    # components of tuple-valued list slots (SET target / value, ORDER BY term ...) are slots of their own
    import re as _re
    for full in sorted(x for x in rs if _re.search(r"\]\.\d+$", x)):
        ok = full in replaced_full
        obs.append(Obligation(PROP, f"{name}|slots/replace|{full.replace('self.', '', 1)}", "slots/replace", fi.short,
                              PROVED if ok else REFUTED,
                              detail=f"{ci.name}.replace_table rebuilds the rendered component {full}",
                              reason="" if ok else f"{full} is rendered by get_sql but replace_table is never called on it",
                              witness={"family": "call", "oracle": "replace_slot",
                                       "args": [name, full.replace("self.", "", 1).split("[")[0]]}))
    for rk, missing in sorted(bad_callee.items()):
        obs.append(Obligation(PROP, f"{name}|slots/callee|{rk}", "slots/callee", fi.short, REFUTED,
                              detail=f"replace_table is called on {rk}, which may be a {missing}: that class has no "
                                     f"replace_table (dynamic attribute lookup returns a Field; calling it raises)",
                              reason=f"receiver classes without the method: {missing}",
                              witness={"family": "call", "oracle": "replace_slot", "args": [name, rk]}))
    # frame: receiver untouched, result fresh (same obligations as C01)
    nwrites = sum(len(o.state.writes) for o in run.outcomes)
    for ob in c01.check_one((fi.qual, ci.qual)):
        if ob.kind == "frame/result" and nwrites == 0:
            continue         # the inherited no-op returns the (unchanged) receiver itself
        if ob.status != PROVED:
            ob.prop = PROP
            ob.kind = "slots/frame"
            obs.append(ob)
    if not any(o.kind == "slots/frame" for o in obs):
        obs.append(Obligation(PROP, f"{name}|slots/frame", "slots/frame", fi.short, PROVED,
                              detail="replace_table writes only to the copy it returns (C01 frame obligations)"))
    return obs


def _bool_valued(ci, node, depth=0):
    """syntactic judgement: the expression evaluates to a bool (used on the return expressions of __eq__)"""
    import ast
    from contracts.invariants import SLOTS
    if isinstance(node, ast.Constant):
        return isinstance(node.value, bool)
    if isinstance(node, ast.UnaryOp) and isinstance(node.op, ast.Not):
        return True
    if isinstance(node, ast.BoolOp):
        return all(_bool_valued(ci, v, depth) for v in node.values)
    if isinstance(node, ast.Call):
        f = node.func
        if isinstance(f, ast.Name) and f.id in ("isinstance", "bool", "all", "any", "hasattr", "issubclass"):
            return True
        if isinstance(f, ast.Attribute) and f.attr in ("__eq__", "__ne__") and isinstance(f.value, ast.Name) \
                and f.value.id == "self" and depth < 3:
            res = ci.resolve(f.attr)
            return bool(res and res[0] == "func" and _eq_returns_bool(ci, res[1], depth + 1))
        return False
    if isinstance(node, ast.Compare):
        if all(isinstance(op, (ast.Is, ast.IsNot, ast.In, ast.NotIn)) for op in node.ops):
            return True
        # == / != of attributes: bool unless an operand is declared to hold a Node (whose == builds a criterion)
        for side in [node.left] + list(node.comparators):
            if isinstance(side, ast.Attribute):
                for k in ci.mro:
                    spec = SLOTS.get(k.short, {}).get(side.attr)
                    if spec and any(w in spec for w in ("Node", "Term", "Field", "Criterion")):
                        return False
            elif not isinstance(side, (ast.Constant, ast.Name)):
                return False
        return True
    return False


def _eq_returns_bool(ci, fi, depth=0):
    import ast
    rets = [n for n in ast.walk(fi.node) if isinstance(n, ast.Return)]
    return bool(rets) and all(n.value is not None and _bool_valued(ci, n.value, depth) for n in rets)


def check_eq_bool():
    """slots/eq-bool: replace_table decides `source == current_table` for FROM / JOIN / INSERT / UPDATE sources; every
    concrete row-source class must resolve __eq__ to a bool-valued function of the package (Term.__eq__ builds an
    always-truthy criterion: every such source would be taken for the table to replace)"""
    r = repo()
    obs = []
    for ci in sorted(r.subclasses(r.cls("queries.Selectable")), key=lambda c: c.qual):
        res = ci.resolve("__eq__")
        if not res or res[0] != "func":
            ok, why = True, "object.__eq__ (identity, bool)"
        else:
            ok = _eq_returns_bool(ci, res[1])
            why = f"{res[1].short} " + ("returns bool on every path" if ok else
                                        "does not return a bool on every path (it builds a criterion, which is truthy)")
        obs.append(Obligation(PROP, f"{ci.short}|slots/eq-bool", "slots/eq-bool", (res[1].short if res and res[0] == "func"
                                                                                  else ci.short + ".__eq__"),
                              PROVED if ok else REFUTED, backend="syntactic",
                              detail=f"{ci.name} may stand where replace_table tests `== current_table`: {why}",
                              reason="" if ok else f"{ci.name} == <any table> is truthy: replace_table(x, new) replaces this "
                                                   f"source by `new` whatever x is",
                              witness={"family": "call", "oracle": "rowsource_eq", "args": [ci.short]}))
    return obs


def generate(tier="quick"):
    r = repo()
    items, seen = [], set()
    roots = [r.cls("terms.Term"), r.cls("queries.Join")]
    for root in roots:
        for ci in sorted(r.subclasses(root), key=lambda c: c.qual):
            g, rp = ci.resolve("get_sql"), ci.resolve("replace_table")
            if not g or not rp or g[0] != "func" or rp[0] != "func":
                continue
            sig = (g[1].qual, rp[1].qual) + tuple((ci.resolve(x) or (0, None))[1] and ci.resolve(x)[1].qual for x in
                                                  ("get_function_sql", "get_special_params_sql", "get_partition_sql",
                                                   "get_filter_sql", "_select_sql", "_distinct_sql", "_returning_sql"))
            if sig in seen:
                continue
            seen.add(sig)
            items.append(ci.qual)
    obs = parallel(check_class, items) + check_eq_bool()
    return obs, {"functions": sorted({i + ".replace_table" for i in items}), "closed_world": items,
                 "assumptions": ["lemma (paper): slot-wise replacement is a homomorphism, so the rendering of "
                                 "x.replace_table(o, n) equals the rendering of the construction with n for o",
                                 "tables are compared with Table.__eq__ (coherence: C17); that every row-source class has a "
                                 "bool-valued __eq__ is obligation slots/eq-bool (syntactic judgement on the return "
                                 "expressions of the resolved __eq__)"]}
