"""Position-flag obligations shared by C10 (non-interference), C11 (qualification) and C12 (aliases).

One symbolic run per render function and concrete class; the nested-render call sites (effects) carry the context
that was passed; the obligations compare its position flags with the position table (contracts/spec/positions.py)."""
from __future__ import annotations

import fnmatch

import z3

from contracts.spec import positions as P

from ..driver import run_function
from ..front import repo
from ..oblig import PROVED, REFUTED, UNKNOWN, UNSUPPORTED, Obligation
from ..smt import FALSE, TRUE, disj
from ..values import B, Dyn, Fn, IteA, IteV, JoinA, K, Lit, Obj, OpA, QuoteA, S, Sym
from .base import canon, parallel
from .render import (eval_spec, POSITION_PART, ctx_arg, effective_ctx, equal_under, field_of, flat_calls, recv_key,
                     render_targets, resolve, value_is)

# helpers whose sites are checked in the run of their (only) caller, which fixes the context they receive
INLINE_ONLY = {"_orderby_field"}
POS_ATOMS = ["ctx.with_alias", "ctx.subquery", "ctx.subcriterion", "ctx.with_namespace"]


def _glob(text, pat) -> bool:
    """only `*` is a wildcard (slot paths contain `[*]`, which fnmatch would read as a character class)"""
    import re as _re
    if pat == text or pat == "*":
        return True
    mark = "\x00"
    parts = pat.replace("[*]", mark).split("*")
    rx = ".*".join(_re.escape(x.replace(mark, "[*]")) for x in parts)
    return _re.fullmatch(rx, text) is not None


def site_rule(fi, ci, func_short, rk):
    """required flags at a nested render site, or None when the position is unspecified"""
    r = repo()
    fname = func_short.split(".")[-1]
    term, sel = r.cls("terms.Term"), r.cls("queries.Selectable")
    for f, pat, flags in P.JOIN_SITES:
        if func_short == f and _glob(rk, pat):
            return flags
    for f, pat, flags in P.BUILDER_SITES + P.BODY_SITES:
        if fname == f and _glob(rk, pat):
            return flags
    if fname in P.UNSPECIFIED_FUNCS:
        return None
    owner = r.funcs.get("pypika_tortoise." + func_short)
    ocls = owner.cls if owner is not None else None
    if ocls is not None and term in ocls.mro and sel not in ocls.mro:
        # inside an expression node every child is an operand: never print its alias (C12)
        return {"with_alias": P.OFF}
    return None


def may_be_term(ex, ef) -> bool:
    r = repo()
    tl = ex.tags.sub(r.cls("terms.Term")) | ex.tags.sub(r.cls("queries.Selectable"))
    return ef.recv_tags is None or bool(ef.recv_tags & tl)


def alias_is_self(a) -> bool:
    return isinstance(a, QuoteA) and len(a.inner) == 1 and isinstance(a.inner[0], Dyn) and \
        isinstance(a.inner[0].v, Sym) and a.inner[0].v.path == "self.alias"


def ends_with_alias(atoms, depth=0):
    atoms = list(atoms)
    if not atoms or depth > 12:
        return FALSE
    last = atoms[-1]
    if alias_is_self(last):
        return TRUE
    if isinstance(last, IteA):
        return z3.If(last.c, ends_with_alias(atoms[:-1] + list(last.a), depth + 1),
                     ends_with_alias(atoms[:-1] + list(last.b), depth + 1))
    return FALSE


def alias_occurs(atoms):
    fs = []
    for a in atoms:
        if alias_is_self(a):
            return TRUE
        if isinstance(a, IteA):
            fs.append(z3.If(a.c, alias_occurs(a.a), alias_occurs(a.b)))
        elif isinstance(a, QuoteA):
            fs.append(alias_occurs(a.inner))
        elif isinstance(a, JoinA):
            fs.append(alias_occurs(a.body))
    return disj(fs)


def depends_on_position(ex, v) -> list:
    """position atoms of the incoming context that the value depends on"""
    if isinstance(v, K) or v is None:
        return []
    try:
        f = ex.truth(v)
    except Exception:
        return ["?"]
    ids = ex.smt.atoms_of(f)
    out = []
    for name in POS_ATOMS:
        a = ex.smt.atoms.get(name)
        if a is not None and a.get_id() in ids:
            out.append(name)
    return out


def shape_of(ex, v):
    """text of a str-valued result without triggering new contract calls"""
    if isinstance(v, S):
        return v
    if isinstance(v, IteV):
        a, b = shape_of(ex, v.a), shape_of(ex, v.b)
        return S((IteA(v.c, a.atoms, b.atoms),))
    if isinstance(v, K) and isinstance(v.v, str):
        return S((Lit(v.v),))
    if isinstance(v, Sym):
        return S((Dyn(v, "raw"),))
    from ..values import Elems, MapPart, PreSeq, Tu
    parts = None
    if isinstance(v, Tu):
        parts = v.parts
    elif isinstance(v, Obj) and v.oid in ex.st.heap and ex.st.heap[v.oid].kind in ("list", "set"):
        parts = ex.st.heap[v.oid].parts
    if parts is not None:
        # a sequence of texts: the concatenation in order (for occurrence / order analyses)
        atoms = []
        for p in parts:
            if isinstance(p, Elems):
                for i in p.items:
                    try:
                        atoms.extend(shape_of(ex, i).atoms)
                    except ValueError:
                        pass
            elif isinstance(p, MapPart):
                alts = []
                for g, its in p.alts:
                    sub = []
                    for i in its:
                        try:
                            sub.extend(shape_of(ex, i).atoms)
                        except ValueError:
                            pass
                    alts.append((g, S(tuple(sub))))
                atoms.append(JoinA((), p.seq, ex.alts_shape(alts).atoms, p.lid))
        return S(tuple(atoms))
    if isinstance(v, K):
        return S((Lit(str(v.v)),))
    raise ValueError(v)


def check_one(item):
    fq, cq, covered = item
    r = repo()
    fi, ci = r.funcs[fq], r.classes[cq]
    name = f"{fi.short}@{ci.short}"
    run = run_function(fi, ci)
    if run.error:
        return [Obligation(p, f"{name}|pos", "pos/supported", fi.short, UNSUPPORTED, reason=run.error)
                for p in ("C10", "C11", "C12")]
    ex = run.ex
    obs = []
    ctxp = run.params.get("ctx")
    eff = effective_ctx(ex, ci, ctxp) if ctxp is not None else None
    qb, setop = r.cls("queries.QueryBuilder"), r.cls("queries._SetOperation")
    is_stmt = fi.name == "get_sql" and (qb in ci.mro or setop in ci.mro)
    site_res = {}      # (func, rk, flag) -> worst status
    leak = {}          # (func, rk, flag) -> atoms
    seen_cids = set()
    for o in run.outcomes:
        if o.status == "raise":
            continue
        ex.st = o.state
        for ef, g, in_loop in flat_calls(o.state.effects):
            if ef.method != "get_sql" or ef.cid in seen_cids:
                continue
            seen_cids.add(ef.cid)       # ids are deterministic: the same call on a shared path prefix
            cv = ctx_arg(ex, o.state, ef)
            if cv is None:
                continue
            pcg = o.state.pc + ([g] if g is not None else [])
            rk = recv_key(ex, ef, o.state)
            func_short = ef.site.split("|")[0]
            rule = site_rule(fi, ci, func_short, rk)
            if rule is not None and not may_be_term(ex, ef):
                rule = None          # the receiver cannot carry an alias (schema, SQL type ...)
            feasible = None
            for flag in POSITION_PART:
                passed = field_of(ex, o.state, cv, flag)
                if passed is None:
                    continue
                owner_run = func_short == fi.short or func_short.split(".")[-1] in INLINE_ONLY
                if rule is not None and flag in rule and owner_run and fi.name not in INLINE_ONLY:
                    if isinstance(passed, K):
                        v = "yes" if passed.v == rule[flag] else "no"
                    else:
                        v = value_is(ex, pcg, resolve(ex, pcg, passed), rule[flag])
                    if v != "yes":
                        if feasible is None:
                            feasible = ex.smt.feasible(pcg)
                        if not feasible:
                            continue
                    k = (func_short, rk, flag, rule[flag])
                    if site_res.get(k, "yes") == "yes":
                        site_res[k] = v
                # the namespace decision of query builders is the subject of ns/decision (C11); every other statement
                # (set operations, DDL) must not let the embedding query's decision through either
                if is_stmt and (flag != "with_namespace" or qb not in ci.mro):
                    dep = depends_on_position(ex, passed)
                    k = (func_short, rk, flag)
                    if dep:
                        if feasible is None:
                            feasible = ex.smt.feasible(pcg)
                        if not feasible:
                            continue
                        leak[k] = sorted(set(leak.get(k, [])) | set(dep))
                    else:
                        leak.setdefault(k, [])
    # ---- C11 ns/decision: every clause of a statement builder is rendered with with_namespace == NS(self)
    #      (bare positions: with_namespace == False)
    if is_stmt and qb in ci.mro:
        ns_res = {}
        seen = set()
        for o in run.outcomes:
            if o.status == "raise":
                continue
            ex.st = o.state
            spec_vals = None
            for ef, g, in_loop in flat_calls(o.state.effects):
                if ef.method != "get_sql" or ef.cid in seen:
                    continue
                seen.add(ef.cid)
                cv = ctx_arg(ex, o.state, ef)
                if cv is None:
                    continue
                passed = field_of(ex, o.state, cv, "with_namespace")
                if passed is None:
                    continue
                pcg = o.state.pc + ([g] if g is not None else [])
                rk = recv_key(ex, ef, o.state)
                func_short = ef.site.split("|")[0]
                fname = func_short.split(".")[-1]
                bare = (fname == "_columns_sql") or (fname == "_set_sql" and rk.endswith(".0")) or \
                    (fname == "_on_conflict_action_sql" and rk.endswith(".0"))
                if fname in ("_on_conflict_sql", "_on_conflict_action_sql", "_with_sql") and not bare:
                    continue            # unspecified positions
                try:
                    fp = ex.truth(resolve(ex, pcg, passed))
                except Exception:
                    continue
                if bare:
                    ok = ex.smt.implied(pcg, z3.Not(fp))
                    why = "" if ok else "a bare position (INSERT column / SET target / ON CONFLICT target) may be qualified"
                else:
                    if spec_vals is None:
                        spec_vals = [ex.truth(eval_spec(ex, o.state, "ns", n, [run.self_obj]))
                                     for n in ("NS", "NS_setop_too")]
                    ok = any(ex.smt.implied(pcg, fp == sv) for sv in spec_vals)
                    why = "" if ok else f"with_namespace passed is {z3.simplify(fp)} but the rule NS(self) is {z3.simplify(spec_vals[0])}"
                if not ok and not ex.smt.feasible(pcg):
                    continue
                k = (fname, rk, bare)
                if k not in ns_res or (ns_res[k][0] and not ok):
                    ns_res[k] = (ok, why)
        for (fname, rk, bare), (ok, why) in sorted(ns_res.items()):
            obs.append(Obligation("C11", f"{name}|ns/decision|{fname}|{rk}", "ns/decision", fi.short,
                                  PROVED if ok else REFUTED,
                                  detail=f"{rk} in {fname} is rendered with with_namespace == "
                                         f"{'False (bare position)' if bare else 'NS(self) (the qualification rule of C11)'}",
                                  reason=why[:600], witness={"family": "call", "oracle": "ns_decision",
                                                             "args": [ci.short, fname, rk]}))
    for (func_short, rk, flag, want), v in sorted(site_res.items(), key=str):
        prop = "C12" if flag == "with_alias" else ("C11" if flag == "with_namespace" else "C10")
        kind = {"with_alias": "alias/site", "with_namespace": "ns/site"}.get(flag, "embed/site")
        key = f"{name}|{kind}|{func_short.split('.')[-1]}|{rk}|{flag}"
        if flag == "with_alias":
            # the same site obligation belongs to C10 as well: an embedded statement must not print its alias where
            # the position does not define one
            k10 = f"{name}|embed/site|{func_short.split('.')[-1]}|{rk}|{flag}"
            obs.append(Obligation("C10", k10, "embed/site", fi.short, PROVED if v == "yes" else REFUTED,
                                  detail=f"{func_short} renders {rk} with {flag}={want} (position table)",
                                  reason="" if v == "yes" else f"{flag} at this site is not provably {want}",
                                  witness={"family": "call", "oracle": "position_site", "no_crosscheck": True,
                                           "args": [func_short, ci.short, rk, flag, want]}))
        if v == "yes":
            obs.append(Obligation(prop, key, kind, fi.short, PROVED,
                                  detail=f"{func_short} renders {rk} with {flag}={want} (position table)"))
        else:
            obs.append(Obligation(prop, key, kind, fi.short, REFUTED,
                                  detail=f"{func_short} must render {rk} with {flag}={want} (position table) but "
                                         f"passes a value that is {'the opposite' if v == 'no' else 'inherited / not fixed'}",
                                  reason=f"{flag} at this site is not provably {want}",
                                  witness={"family": "call", "oracle": "position_site",
                                           "args": [func_short, ci.short, rk, flag, want]}))
    for (func_short, rk, flag), atoms in sorted(leak.items()):
        key = f"{name}|nonint/flags|{func_short.split('.')[-1]}|{rk}|{flag}"
        if not atoms:
            obs.append(Obligation("C10", key, "nonint/flags", fi.short, PROVED,
                                  detail=f"{flag} passed to {rk} in {func_short} does not depend on the position part "
                                         f"of the incoming context"))
        else:
            obs.append(Obligation("C10", key, "nonint/flags", fi.short, REFUTED,
                                  detail=f"{flag} passed to {rk} in {func_short} depends on the embedding position "
                                         f"({', '.join(atoms)}): the clause renders differently stand-alone and embedded",
                                  reason=f"depends on {atoms}",
                                  witness={"family": "call", "oracle": "embedding_leak",
                                           "args": [func_short, ci.short, rk, flag]}))
    # ---- alias/class: the term's own alias is printed exactly when the position defines one
    if fi.name == "get_sql" and ex.slot_spec(ci, "alias") is not None and ctxp is not None and not is_stmt \
            and r.cls("terms.Term") in ci.mro:
        wa = ex.smt.atom("ctx.with_alias")
        alias_none = ex.smt.tag_in("self.alias", frozenset({"NoneType"}), ex.tags.of_spec("name|None"))
        on_ok, off_ok, n = True, True, 0
        on_why = off_why = ""
        for o in run.outcomes:
            if o.status != "return":
                continue
            if not isinstance(o.value, S):
                try:
                    ex.st = o.state
                    ex.frames = []
                    o.value = shape_of(ex, o.value)
                except Exception:
                    continue
            n += 1
            pc_on = o.state.pc + [wa, z3.Not(alias_none)]
            if isinstance(ctxp, Sym) and ctxp.tags and "NoneType" in ctxp.tags:
                pc_on = pc_on + [ex.truth(ctxp)]
            if ex.smt.feasible(pc_on) and not ex.smt.implied(pc_on, ends_with_alias(o.value.atoms)):
                on_ok, on_why = False, f"with_alias and alias set, but the text does not end with the alias: {str(o.value)[:300]}"
            pc_off = o.state.pc + [z3.Not(wa), z3.Not(alias_none)]
            if isinstance(ctxp, Sym) and ctxp.tags and "NoneType" in ctxp.tags:
                pc_off = pc_off + [ex.truth(ctxp)]
            if ex.smt.feasible(pc_off) and not ex.smt.implied(pc_off, z3.Not(alias_occurs(o.value.atoms))):
                off_ok, off_why = False, f"with_alias is off but the alias is printed: {str(o.value)[:300]}"
        if n:
            obs.append(Obligation("C12", f"{name}|alias/class-on", "alias/class-on", fi.short,
                                  PROVED if on_ok else REFUTED,
                                  detail="in a defining position (with_alias) the alias follows the term, exactly once",
                                  reason=on_why, witness={"family": "call", "oracle": "alias_class",
                                                          "args": [ci.short, "on"]}))
            obs.append(Obligation("C12", f"{name}|alias/class-off", "alias/class-off", fi.short,
                                  PROVED if off_ok else REFUTED,
                                  detail="in an operand position (with_alias off) the alias is not printed",
                                  reason=off_why, witness={"family": "call", "oracle": "alias_class",
                                                           "args": [ci.short, "off"]}))
    return obs


def generate_for(prop, tier="quick"):
    r = repo()
    t = render_targets(r)
    obs = parallel(check_one, t)
    mine = [o for o in obs if isinstance(o, tuple) or o.prop == prop]
    return mine, {"functions": sorted({x[0] for x in t}), "closed_world": sorted({c for x in t for c in x[2]})}
