"""Shared helpers of the per-property obligation generators."""
from __future__ import annotations

import multiprocessing as mp
import os
import re
import sys
import traceback

from ..front import ClassInfo, FuncInfo, Repo, repo
from ..oblig import PROVED, REFUTED, UNKNOWN, UNSUPPORTED, Obligation

_CANON = re.compile(r"#r[\w./]*")


_CANON2 = re.compile(r"(loop|call|map)r[\w./]*")


def canon(path: str) -> str:
    """object names without allocation counters (stable across harmless edits)"""
    return _CANON2.sub(r"\1", _CANON.sub("", path))


def is_abstract_target(ci: ClassInfo) -> bool:
    import enum
    return issubclass(ci.live, (enum.Enum, BaseException))


def classes_using(r: Repo, fi: FuncInfo) -> list[ClassInfo]:
    """concrete classes of the closed world whose MRO resolves fi.name to fi"""
    out = []
    for ci in r.classes.values():
        if is_abstract_target(ci):
            continue
        res = ci.resolve(fi.name)
        if res and res[0] == "func" and res[1] == fi:
            out.append(ci)
    return sorted(out, key=lambda c: c.qual)


_WORK = None


def _call(i):
    f, item = _WORK
    try:
        return f(item[i])
    except Exception as e:          # a crash of the checker is never a verdict
        return [("CRASH", repr(item[i]), "".join(traceback.format_exception(e))[-3000:])]


def parallel(func, items, procs=None):
    """run func(item) -> list[Obligation] over items in a fork pool (repo already loaded in the parent)"""
    global _WORK
    procs = procs or min(16, os.cpu_count() or 1)
    items = list(items)
    if not items:
        return []
    _WORK = (func, items)
    if procs == 1 or len(items) == 1:
        res = [_call(i) for i in range(len(items))]
    else:
        ctx = mp.get_context("fork")
        with ctx.Pool(min(procs, len(items))) as pool:
            res = pool.map(_call, range(len(items)), chunksize=1)
    out = []
    for r_ in res:
        out.extend(r_)
    return out


def self_signature(r: Repo, fi: FuncInfo, ci: ClassInfo) -> tuple:
    """what every `self.<name>` reached from fi (transitively through methods of self) resolves to in class ci;
    two classes with the same signature execute exactly the same code for fi"""
    import ast
    seen_funcs, sig, work = set(), {}, [fi]
    while work:
        f = work.pop()
        if f.qual in seen_funcs:
            continue
        seen_funcs.add(f.qual)
        selfname = f.node.args.args[0].arg if f.node.args.args and f.kind in ("method", "property", "class") else None
        for n in ast.walk(f.node):
            name = None
            if isinstance(n, ast.Attribute) and isinstance(n.value, ast.Name) and n.value.id == selfname:
                name = n.attr
            elif isinstance(n, ast.Attribute) and isinstance(n.value, ast.Call) and isinstance(n.value.func, ast.Name) \
                    and n.value.func.id == "super":
                res = ci.resolve_after(f.cls, n.attr) if f.cls is not None else None
                if res and res[0] == "func":
                    sig[("super", f.cls.qual, n.attr)] = res[1].qual
                    work.append(res[1])
                continue
            elif isinstance(n, ast.Call) and isinstance(n.func, ast.Name) and n.func.id in ("getattr", "hasattr") \
                    and len(n.args) >= 2 and isinstance(n.args[0], ast.Name) and n.args[0].id == selfname \
                    and isinstance(n.args[1], ast.Constant):
                name = n.args[1].value
            if name is None or name in sig:
                continue
            res = ci.resolve(name)
            if res is None:
                hook = ci.resolve("__getattr__")
                sig[name] = ("hook", hook[1].qual) if hook else None
            elif res[0] == "func":
                sig[name] = res[1].qual
                work.append(res[1])
            else:
                try:
                    sig[name] = ("attr", repr(getattr(ci.live, name))[:200])
                except Exception:
                    sig[name] = ("attr", "?")
    for special in ("__copy__", "__getattr__", "__str__", "__eq__", "__hash__"):
        res = ci.resolve(special)
        sig["$" + special] = res[1].qual if res and res[0] == "func" else None
    return tuple(sorted((str(k), str(v)) for k, v in sig.items()))


def grouped_targets(r: Repo, funcs) -> list:
    """[(fi.qual, representative class qual, [covered class quals])] - classes with identical self-signature are
    verified once"""
    out = []
    for fi in funcs:
        groups = {}
        for ci in classes_using(r, fi):
            groups.setdefault(self_signature(r, fi, ci), []).append(ci)
        for sig, cls in groups.items():
            # prefer the defining class as representative
            rep = fi.cls if fi.cls in cls else cls[0]
            out.append((fi.qual, rep.qual, [c.qual for c in cls]))
    return out
