"""C04 - parameterised rendering is equivalent to inline rendering.

O-LINEAR (DESIGN §4.5): in every render function the nested renders (the only code that can append to the
parameterizer) are evaluated in the order in which their text occurs in the result, and each result is used exactly
once (linear/order, linear/once).  Leaf contracts (param/leaf): ValueWrapper / Array append exactly their value and
emit the dialect's placeholder; nothing else reads the parameterizer (linear/guard-independence, syntactic);
the placeholder table is total and matches the dialect table (param/table).  Lemma L-LINEAR (paper) lifts this to:
the k-th placeholder belongs to values[k-1], there are len(values) placeholders, and substituting literals gives
the inline text."""
from __future__ import annotations

import ast

import z3

from contracts.spec.dialects import DEFAULT_PLACEHOLDER, PLACEHOLDER

from ..driver import run_function
from ..front import repo
from ..oblig import PROVED, REFUTED, UNKNOWN, UNSUPPORTED, Obligation
from ..smt import FALSE, TRUE, conj, disj
from ..values import CallA, Dyn, IteA, IteV, JoinA, K, Lit, Obj, OpA, QuoteA, S, Sym
from .base import canon, parallel
from .positions import shape_of
from .render import flat_calls, recv_key, render_targets

PROP = "C04"
MIN_OBLIGATIONS = 100
RENDER_METHODS = {"get_sql", "get_formatted_value", "_recursive_get_sql"}


def occurrences(atoms, cond, out, counter, seen_slices):
    """textual occurrences of call results / joins: out.append((kind, id, cond, position))"""
    for a in atoms:
        if isinstance(a, CallA):
            counter[0] += 1
            out.append(("call", a.cid, cond, counter[0]))
        elif isinstance(a, JoinA):
            counter[0] += 1
            out.append(("join", a.lid, cond, counter[0], a))
            occurrences(a.sep, cond, out, counter, seen_slices)
        elif isinstance(a, IteA):
            ca = a.c if cond is None else z3.And(cond, a.c)
            cb = z3.Not(a.c) if cond is None else z3.And(cond, z3.Not(a.c))
            occurrences(a.a, ca, out, counter, seen_slices)
            occurrences(a.b, cb, out, counter, seen_slices)
        elif isinstance(a, QuoteA):
            occurrences(a.inner, cond, out, counter, seen_slices)
        elif isinstance(a, OpA):
            if a.op == "slice":
                src = a.args[0]
                key = id(src) if not isinstance(src, S) else src.atoms
                if key in seen_slices:
                    continue          # s[:n] ... s[n:]: two slices of one text count once
                seen_slices.add(key)
            for x in a.args:
                if isinstance(x, S):
                    occurrences(x.atoms, cond, out, counter, seen_slices)


def check_linear(ex, pc, effects, atoms, where, problems):
    """compare evaluation order of the nested renders with textual order in `atoms`"""
    occ = []
    occurrences(atoms, None, occ, [0], set())
    by_id = {}
    for o in occ:
        by_id.setdefault((o[0], o[1]), []).append(o)
    seq = []
    r = repo()
    carriers = ex.tags.sub(r.cls("terms.Term")) | ex.tags.sub(r.cls("queries.Selectable")) | \
        ex.tags.sub(r.cls("terms.Interval")) | {"other"}
    carriers = carriers - ex.tags.sub(r.cls("terms.Index")) - ex.tags.sub(r.cls("queries.Table")) - \
        ex.tags.sub(r.cls("terms.PseudoColumn"))
    for ef in effects:
        if ef.kind == "call" and ef.method in RENDER_METHODS:
            if ef.recv_tags is not None and not (ef.recv_tags & carriers):
                continue        # the receiver cannot contain values (schema, column, SQL type ...)
            seq.append(("call", ef.cid, ef.guard, ef))
        elif ef.kind == "loop":
            has = any(e.kind == "call" and e.method in RENDER_METHODS or e.kind == "loop" for _g, body in ef.body
                      for e in body)
            if has:
                seq.append(("join", ef.lid, ef.guard, ef))
    last = None          # (position, guard, description) of the textually latest item evaluated so far
    for kind, ident, g, ef in seq:
        pcg = pc + ([g] if g is not None else [])
        os_ = by_id.get((kind, ident), [])
        desc = f"{ef.method}({recv_key(ex, ef, ex.st)})" if kind == "call" else f"loop over {ef.seq}"
        if not os_:
            if kind == "join":
                pcg = pcg + [ex.parts_nonempty((ef.seq,))]
            if ex.smt.feasible(pcg):
                problems.append(("once", f"{where}: {desc} is evaluated (it may append to the parameter list) but "
                                         f"its text does not reach the result"))
            continue
        if kind == "join":
            # a loop contributes text only if it runs at least once
            pcg = pcg + [ex.shape_nonempty(S((os_[0][4],)))]
        if not all(o[2] is None for o in os_):
            used = disj([o[2] if o[2] is not None else TRUE for o in os_])
            if not ex.smt.implied(pcg, used) and ex.smt.feasible(pcg):
                problems.append(("once", f"{where}: {desc} is evaluated (it may append to the parameter list) but "
                                         f"its text does not reach the result on some path"))
                continue
        if len(os_) > 1:
            for i, o1 in enumerate(os_):
                for o2 in os_[i + 1:]:
                    c = conj([x for x in (o1[2], o2[2]) if x is not None])
                    if ex.smt.feasible(pcg + [c]):
                        problems.append(("once", f"{where}: the text of {desc} is used twice"))
        pos = min(o[3] for o in os_)
        if last is not None and last[0] > pos:
            if ex.smt.feasible(pcg + ([last[1]] if last[1] is not None else [])):
                problems.append(("order", f"{where}: {last[2]} is evaluated before {desc} but its text comes later"))
        if last is None or pos > last[0]:
            last = (pos, g, desc)
        if kind == "join":
            join_atom = os_[0][4]
            for bg, body in ef.body:
                check_linear(ex, pcg + [bg], body, join_atom.body, where + "/loop", problems)


def check_one(item):
    fq, cq, covered = item
    r = repo()
    fi, ci = r.funcs[fq], r.classes[cq]
    name = f"{fi.short}@{ci.short}"
    run = run_function(fi, ci)
    if run.error:
        return [Obligation(PROP, f"{name}|linear", "linear/supported", fi.short, UNSUPPORTED, reason=run.error)]
    ex = run.ex
    problems = []
    n = 0
    for o in run.outcomes:
        if o.status != "return":
            continue
        ex.st = o.state
        ex.frames = []
        try:
            sh = shape_of(ex, o.value)
        except Exception:
            if any(e.kind == "call" and e.method in RENDER_METHODS for e, _g, _l in flat_calls(o.state.effects)):
                problems.append(("once", f"result is not a text although nested renders were evaluated: {o.value!r}"))
            continue
        n += 1
        check_linear(ex, o.state.pc, o.state.effects, sh.atoms, fi.name, problems)
    obs = []
    for kind in ("once", "order"):
        ps = sorted({p for k, p in problems if k == kind})
        if not ps:
            obs.append(Obligation(PROP, f"{name}|linear/{kind}", f"linear/{kind}", fi.short, PROVED,
                                  detail={"once": "every nested render that is evaluated contributes its text "
                                                  "exactly once to the result",
                                          "order": "nested renders are evaluated in the order of their text"}[kind]
                                  + f" ({n} returning paths)"))
        for p in ps[:5]:
            obs.append(Obligation(PROP, f"{name}|linear/{kind}|{canon(p)[:120]}", f"linear/{kind}", fi.short, REFUTED,
                                  detail=p, reason=p, witness={"family": "call", "oracle": "param_equivalence",
                                                               "args": [ci.short]}))
    return obs


def check_static(_item):
    """linear/guard-independence and param/table"""
    r = repo()
    obs = []
    allowed = {"terms.ValueWrapper.get_sql", "terms.Array.get_sql", "queries.QueryBuilder.get_parameterized_sql",
               "context.SqlContext.copy"}
    bad = []
    for fi in r.funcs.values():
        for n in ast.walk(fi.node):
            if isinstance(n, ast.Attribute) and n.attr == "parameterizer" and fi.short not in allowed:
                bad.append(f"{fi.short}:{n.lineno}")
    obs.append(Obligation(PROP, "package|linear/guard-independence", "linear/guard-independence", "package",
                          PROVED if not bad else REFUTED, backend="syntactic",
                          detail="only ValueWrapper.get_sql, Array.get_sql, get_parameterized_sql and SqlContext.copy "
                                 "read ctx.parameterizer, so inline and parameterised renders take the same paths "
                                 "everywhere else",
                          reason=", ".join(bad), witness={"family": "call", "oracle": "param_equivalence", "args": ["*"]}))
    # placeholder table: Parameter.get_sql with idx
    fi = r.func("terms.Parameter.get_sql")
    ci = r.cls("terms.Parameter")
    import enum
    dialects = r.cls("enums.Dialects").live

    def pre(ex, self_obj, params):
        h = ex.hobj(self_obj)
        h.attrs["_placeholder"] = K(None)

    for member in dialects:
        def pre2(ex, self_obj, params, member=member):
            pre(ex, self_obj, params)
            co = ex.as_obj(params["ctx"])
            ex.hobj(co).attrs["dialect"] = K(member)
        run = run_function(fi, ci, pre=pre2)
        want = PLACEHOLDER.get(member.name, DEFAULT_PLACEHOLDER)
        ok, why = not run.error, run.error or ""
        for o in run.outcomes:
            if o.status != "return":
                ok, why = False, f"path ends with {o.status} {o.value}"
                continue
            txt = repr(o.value)
            if isinstance(o.value, K) and isinstance(o.value.v, str):
                o.value = S((Lit(o.value.v),))
            if want == "$n":
                good = isinstance(o.value, S) and len(o.value.atoms) == 2 and o.value.atoms[0] == Lit("$") and \
                    isinstance(o.value.atoms[1], Dyn) and "self._idx" in repr(o.value.atoms[1])
            else:
                good = isinstance(o.value, S) and o.value.atoms == (Lit(want),)
            if not good:
                ok, why = False, f"renders {txt} for {member.name}, the dialect table says {want}"
        obs.append(Obligation(PROP, f"terms.Parameter.get_sql|param/table|{member.name}", "param/table",
                              fi.short, PROVED if ok else REFUTED,
                              detail=f"index placeholder for {member.name} is {want}", reason=why,
                              witness={"family": "call", "oracle": "param_equivalence", "args": ["*"]}))
    return obs


def check_leaf(item):
    """param/leaf: on the parameterising paths of ValueWrapper/Array.get_sql exactly the wrapped value is
    appended, once; on all other paths nothing is appended"""
    _k, fq, cq = item
    r = repo()
    fi, ci = r.funcs[fq], r.classes[cq]
    name = f"{fi.short}@{ci.short}"
    run = run_function(fi, ci)
    if run.error:
        return [Obligation(PROP, f"{name}|param/leaf", "param/leaf", fi.short, UNSUPPORTED, reason=run.error)]
    ex = run.ex
    want = "self.original_value" if "Array" in ci.short else "self.value"
    par = ex.smt.tag_in("ctx.parameterizer", frozenset({"NoneType"}), ex.tags.of_spec("Parameterizer|None"))
    ok, why, n = True, "", 0
    for o in run.outcomes:
        if o.status != "return":
            continue
        n += 1
        ex.st = o.state
        apps = [w for w in o.state.writes if w.kind == "append" and canon(w.path).endswith("parameterizer.values")]
        txt = repr(o.value)
        if ex.smt.implied(o.state.pc, par):
            if apps:
                ok, why = False, "a value is appended although no parameterizer is installed"
            continue
        vals = {canon(ex.ident(w.value)) for w in apps}
        if len(apps) > 1:
            # merged paths: the appends must be mutually exclusive
            for i, a in enumerate(apps):
                for b in apps[i + 1:]:
                    if ex.smt.feasible(o.state.pc + [a.guard, b.guard]):
                        ok, why = False, "two values are appended on one path"
        if apps and vals != {want}:
            ok, why = False, f"appends {sorted(vals)} instead of {want}"
    extra = []
    if "Array" in ci.short:
        # the appended list is the raw constructor arguments: its elements are not restricted to plain data
        spec = ex.slot_spec(ci, "original_value") or ""
        plain = "value" not in spec and "any" not in spec and "Node" not in spec
        extra.append(Obligation(PROP, f"{name}|param/plain-data|original_value", "param/plain-data", fi.short,
                                PROVED if plain else REFUTED,
                                detail="the list appended by Array.get_sql contains plain data only",
                                reason="" if plain else "original_value holds the raw constructor arguments, which may "
                                                        "be terms (Array(t.a, 1))",
                                witness={"family": "call", "oracle": "plain_data", "args": ["terms.Array.get_sql"]}))
    return extra + [Obligation(PROP, f"{name}|param/leaf", "param/leaf", fi.short, PROVED if ok and n else REFUTED,
                       detail=f"appends exactly {want}, at most once per render, and only when a parameterizer is "
                              f"installed ({n} returning paths)", reason=why,
                       witness={"family": "call", "oracle": "param_equivalence", "args": [ci.short]})]


def check_create(_item):
    """param/create: Parameterizer.create_param(value, ...) appends exactly `value` to self.values on EVERY returning
    path and returns a new Parameter (so every placeholder it hands out has its own entry in the value list)"""
    r = repo()
    ci = r.cls("terms.Parameterizer")
    fi = ci.methods["create_param"]
    run = run_function(fi, ci)
    name = fi.short
    if run.error:
        return [Obligation(PROP, f"{name}|param/create", "param/create", fi.short, UNSUPPORTED, reason=run.error)]
    ex = run.ex
    par = r.cls("terms.Parameter")
    ok, why, n = True, "", 0
    for o in run.outcomes:
        if o.status != "return":
            continue
        n += 1
        ex.st = o.state
        apps = [w for w in o.state.writes if w.kind in ("append", "extend", "setitem", "insert", "attr", "clear", "remove")
                and canon(w.path) in ("self.values", "self") and (w.path != "self" or w.attr == "values")]
        live = [w for w in apps if ex.smt.feasible(o.state.pc + ([w.guard] if w.guard is not None else []))]
        if len(live) != 1 or live[0].kind != "append":
            ok, why = False, f"a returning path performs {[(w.kind, canon(w.path)) for w in live]} on the value list " \
                             "instead of exactly one append"
            continue
        w = live[0]
        if w.guard is not None and not ex.smt.implied(o.state.pc, w.guard):
            ok, why = False, "the append is conditional on a returning path"
        if canon(ex.ident(w.value)) != "value":
            ok, why = False, f"appends {canon(ex.ident(w.value))} instead of the value"
        v = o.value
        if not (isinstance(v, Obj) and o.state.heap[v.oid].fresh and o.state.heap[v.oid].cls is par):
            ok, why = False, f"returns {v!r}: not a new Parameter"
    return [Obligation(PROP, f"{name}|param/create", "param/create", fi.short, PROVED if ok and n else REFUTED,
                       detail=f"every returning path appends exactly the value and returns a new Parameter "
                              f"({n} paths)", reason=why or ("" if n else "no returning path"),
                       witness={"family": "call", "oracle": "param_equivalence", "args": ["*"]})]


def check_should(_item):
    """param/should: Parameterizer.should_parameterize(value) is False for every enum member (also one that is a str)
    and for the lone '*', True otherwise - compared with the specification WITHOUT assuming that the kinds str and Enum
    exclude each other (str-mixin enums are both)"""
    from .render import eval_spec
    r = repo()
    ci = r.cls("terms.Parameterizer")
    fi = ci.methods["should_parameterize"]
    snap = {}
    run = run_function(fi, ci, overrides={"value": "value"}, pre=lambda ex, s_, p_: snap.update(st=ex.st.snapshot()))
    name = fi.short
    if run.error:
        return [Obligation(PROP, f"{name}|param/should", "param/should", fi.short, UNSUPPORTED, reason=run.error)]
    ex = run.ex
    fs = []
    for o in run.outcomes:
        if o.status != "return":
            return [Obligation(PROP, f"{name}|param/should", "param/should", fi.short, REFUTED,
                               detail="should_parameterize returns a boolean on every path",
                               reason=f"a path ends with {o.status} {o.value!r}")]
        ex.st = o.state
        fs.append(z3.And(*(list(o.state.pc) + [ex.truth(o.value)])))
    got = z3.Or(fs)
    want = ex.truth(eval_spec(ex, snap["st"], "parameters", "should_parameterize", [run.self_obj, run.params["value"]],
                              in_module="pypika_tortoise.terms"))
    plain = z3.Solver()
    plain.add(z3.Xor(got, want))
    ok = plain.check() == z3.unsat
    return [Obligation(PROP, f"{name}|param/should", "param/should", fi.short, PROVED if ok else REFUTED,
                       detail=f"should_parameterize(value) <=> {z3.simplify(want)} (kinds not assumed exclusive)",
                       reason="" if ok else f"code: {z3.simplify(got)}; differs e.g. on {plain.model()}"[:500],
                       witness={"family": "call", "oracle": "should_parameterize", "args": []})]


def check_plain(item):
    """param/plain-data: no builder or constructor wraps a query-builder object (Node) in a constant wrapper -
    such a value would be put into the parameter list while the SQL shows a placeholder"""
    from . import c01
    kind, fq, cq = item
    r = repo()
    fi, ci = r.funcs[fq], r.classes[cq]
    name = f"{fi.short}@{ci.short}"
    run = run_function(fi, ci, pre=c01._pre if kind == "$plain-builder" else None, self_fresh=(kind == "$plain-init"))
    if run.error:
        return [Obligation(PROP, f"{name}|param/plain-data", "param/plain-data", fi.short, UNSUPPORTED, reason=run.error)]
    notes = sorted({canon(n) for n in run.ex.notes_global if n.startswith("vw-node:")})
    if not notes:
        return [Obligation(PROP, f"{name}|param/plain-data", "param/plain-data", fi.short, PROVED,
                           detail="every constant wrapper constructed here wraps a value that is not a Node")]
    return [Obligation(PROP, f"{name}|param/plain-data|{n.split(':')[1]}", "param/plain-data", fi.short, REFUTED,
                       detail=f"{n.split(':')[1]} wraps {n.split(':')[2]} in a constant wrapper although it may be "
                              f"a query-builder object", reason=n,
                       witness={"family": "call", "oracle": "plain_data", "args": [fi.short]}) for n in notes]


def _dispatch(item):
    if item[0] == "$static":
        return check_static(item)
    if item[0] == "$leaf":
        return check_leaf(item)
    if item[0] == "$create":
        return check_create(item)
    if item[0] == "$should":
        return check_should(item)
    if item[0] in ("$plain-builder", "$plain-init"):
        return check_plain(item)
    return check_one(item)


def generate(tier="quick"):
    r = repo()
    t = render_targets(r)
    from . import c01
    from .base import classes_using
    extra = [("$static", None, []), ("$create", None, []), ("$should", None, [])]
    for q in ("terms.ValueWrapper.get_sql", "terms.Array.get_sql"):
        f = r.func(q)
        for c in classes_using(r, f):
            extra.append(("$leaf", f.qual, c.qual))
    extra += [("$plain-builder", fq, cq) for fq, cq in c01.targets(r)
              if not fq.endswith(".replace_table") and not fq.endswith(".as_")]
    for c in sorted(r.classes.values(), key=lambda c: c.qual):
        if "__init__" in c.methods and r.cls("terms.ValueWrapper") not in c.mro:
            extra.append(("$plain-init", c.methods["__init__"].qual, c.qual))
    obs = parallel(_dispatch, extra + t)
    return obs, {"functions": sorted({x[0] for x in t}), "closed_world": sorted({c for x in t for c in x[2]}),
                 "assumptions": ["lemma L-LINEAR (paper): linear/once + linear/order + the leaf contracts give the "
                                 "placeholder/value correspondence for whole statements",
                                 "S2 evaluation order of call arguments is left to right"]}
