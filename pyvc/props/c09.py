"""C09 - LIMIT/OFFSET render as the dialect's row-limiting clause, values in the right slots.

page/grammar: for every builder class and each of the 2x2x2 states (limit set?, offset set?, ORDER BY present?)
the text produced by the real _apply_pagination, collapsed under the state's assumptions, equals the dialect's
row-limiting clause (contracts/spec/grammar.py) with the limit in the <L> slot and the offset in the <O> slot -
exhaustive over the finite state space, symbolic in the values.  page/setter: limit/offset/slice/fetch_next store
their argument in the right attribute.  Parameter-list positions are C04 (linear/order)."""
from __future__ import annotations

import itertools

import z3

from contracts.spec.grammar import row_limit

from ..driver import run_function
from ..front import repo
from ..oblig import PROVED, REFUTED, UNKNOWN, UNSUPPORTED, Obligation
from ..values import CallA, Dyn, IteA, IteV, JoinA, K, Lit, Obj, OpA, QuoteA, S, Sym
from .base import canon, classes_using, parallel
from .c11 import collapse
from .positions import shape_of
from .render import flat_calls, recv_key, resolve

PROP = "C09"


def text_of(ex, state, atoms, calls):
    out = ""
    for a in atoms:
        if isinstance(a, Lit):
            out += a.s
        elif isinstance(a, CallA):
            ef = calls.get(a.cid)
            rk = recv_key(ex, ef, state) if ef is not None else "?"
            out += {"self._limit": "<L>", "self._offset": "<O>"}.get(rk, f"<{rk}>")
        elif isinstance(a, Dyn) and isinstance(a.v, Sym) and a.v.path == "querystring":
            out += ""
        elif isinstance(a, IteA):
            out += "<?undecided:" + str(a.c)[:60] + "?>"
        else:
            out += f"<{a!r}>"
    return out


def page_grammar(item):
    _k, fq, cq = item
    r = repo()
    fi, ci = r.funcs[fq], r.classes[cq]
    name = f"{fi.short}@{ci.short}"
    run = run_function(fi, ci)
    if run.error:
        return [Obligation(PROP, f"{name}|page/grammar", "page/grammar", fi.short, UNSUPPORTED, reason=run.error)]
    ex = run.ex
    node_none = ex.tags.of_spec("Node|None")
    lim_none = ex.smt.tag_in("self._limit", frozenset({"NoneType"}), node_none)
    off_none = ex.smt.tag_in("self._offset", frozenset({"NoneType"}), node_none)
    order_nonempty = ex.smt.int("len!self._orderbys", nonneg=True) > 0
    obs = []
    for has_l, has_o, has_ord in itertools.product((False, True), repeat=3):
        assume = [z3.Not(lim_none) if has_l else lim_none, z3.Not(off_none) if has_o else off_none,
                  order_nonempty if has_ord else z3.Not(order_nonempty)]
        want = row_limit(ci.short, has_l, has_o, has_ord)
        texts = set()
        for o in run.outcomes:
            if o.status != "return":
                continue
            pc = o.state.pc + assume
            if not ex.smt.feasible(pc):
                continue
            ex.st = o.state
            ex.frames = []
            calls = {ef.cid: ef for ef, _g, _l in flat_calls(o.state.effects)}
            sh = shape_of(ex, o.value)
            texts.add(text_of(ex, o.state, collapse(ex, sh.atoms, pc), calls))
        state = f"limit={'set' if has_l else 'none'},offset={'set' if has_o else 'none'},orderby={'yes' if has_ord else 'no'}"
        key = f"{name}|page/grammar|{state}"
        got = sorted(texts)
        if want is None:
            ok = got == [""]
            why = "" if ok else f"emits {got} but the dialect has no grammatical form for an offset without a limit"
        else:
            ok = got == [want]
            why = "" if ok else f"emits {got}, the dialect's row-limiting clause is {want!r}"
        obs.append(Obligation(PROP, key, "page/grammar", fi.short, PROVED if ok else REFUTED,
                              detail=f"{ci.short.split('.')[-1]} with {state} renders {want!r}", reason=why,
                              witness={"family": "call", "oracle": "pagination", "args": [ci.short, has_l, has_o, has_ord]}))
    return obs


SETTERS = {
    "limit": [("_limit", "limit", None)], "offset": [("_offset", "offset", None)],
    "fetch_next": [("_limit", "limit", None)],
    "slice": [("_offset", "slice.start", "slice.start"), ("_limit", "slice.stop", "slice.stop")],
}


def page_setter(item):
    from . import c01
    _k, fq, cq = item
    r = repo()
    fi, ci = r.funcs[fq], r.classes[cq]
    name = f"{fi.short}@{ci.short}"
    run = run_function(fi, ci, pre=c01._pre, overrides={"slice": "slice"})
    if run.error:
        return [Obligation(PROP, f"{name}|page/setter", "page/setter", fi.short, UNSUPPORTED, reason=run.error)]
    ex = run.ex
    obs = []
    for attr, src, cond_path in SETTERS[fi.name]:
        other = "_offset" if attr == "_limit" else "_limit"
        ok, why, n = True, "", 0
        for o in run.outcomes:
            if o.status != "return" or not isinstance(o.value, Obj):
                continue
            ex.st = o.state
            ex.frames = []
            pc = list(o.state.pc)
            if cond_path:
                # the argument component is given (not None)
                pc.append(z3.Not(ex.smt.tag_in(cond_path, frozenset({"NoneType"}))))
                if not ex.smt.feasible(pc):
                    continue
            n += 1
            v = resolve(ex, pc, ex.get_attr(o.value, attr))
            txt = canon(repr(v)) + " " + canon(ex.ident(v))
            if isinstance(v, Obj):
                h = o.state.heap[v.oid]
                txt += " " + " ".join(canon(repr(x)) for x in h.attrs.values())
            if isinstance(v, IteV) and ("self." + attr) in repr(v):
                ok, why = False, f"{attr} may keep its old value although {src} was given: {canon(repr(v))[:300]}"
            elif src.split(".")[-1] not in txt and src not in txt:
                ok, why = False, f"{attr} is set to {canon(repr(v))[:200]}, which does not come from {src}"
            if fi.name != "slice":
                w = resolve(ex, pc, ex.get_attr(o.value, other))
                if not (isinstance(w, Sym) and w.path == "self." + other):
                    ok, why = False, f"{other} is changed by {fi.name}()"
        obs.append(Obligation(PROP, f"{name}|page/setter|{attr}", "page/setter", fi.short,
                              PROVED if ok and n else REFUTED,
                              detail=f"{fi.name}() stores {src} in {attr}" + ("" if fi.name == "slice" else
                                                                                 f" and leaves {other} alone"),
                              reason=why, witness={"family": "call", "oracle": "pagination_setter",
                                                   "args": [ci.short, fi.name]}))
    return obs


def setop_grammar(item):
    """a set operation renders its LIMIT/OFFSET itself: the tail must be the row-limiting clause of the dialect of
    its base query, for each of the six builder classes"""
    r = repo()
    ci = r.cls("queries._SetOperation")
    texts = {}
    for part in ("_limit_sql", "_offset_sql"):
        fi = ci.methods[part]
        run = run_function(fi, ci)
        if run.error:
            return [Obligation(PROP, "queries._SetOperation|page/grammar", "page/grammar", fi.short, UNSUPPORTED,
                               reason=run.error)]
        ex = run.ex
        node_none = ex.tags.of_spec("Node|None")
        attr = "self._limit" if part == "_limit_sql" else "self._offset"
        isnone = ex.smt.tag_in(attr, frozenset({"NoneType"}), node_none)
        for has in (False, True):
            got = set()
            for o in run.outcomes:
                if o.status != "return":
                    continue
                pc = o.state.pc + [z3.Not(isnone) if has else isnone]
                if not ex.smt.feasible(pc):
                    continue
                ex.st = o.state
                ex.frames = []
                calls = {ef.cid: ef for ef, _g, _l in flat_calls(o.state.effects)}
                got.add(text_of(ex, o.state, collapse(ex, shape_of(ex, o.value).atoms, pc), calls))
            texts[(part, has)] = sorted(got)
    obs = []
    qb = r.cls("queries.QueryBuilder")
    for base in r.subclasses(qb):
        for has_l, has_o in itertools.product((False, True), repeat=2):
            lt, ot = texts[("_limit_sql", has_l)], texts[("_offset_sql", has_o)]
            got = [a + b for a in lt for b in ot]          # get_sql appends _limit_sql then _offset_sql
            want = row_limit(base.short, has_l, has_o, True)
            ok = (got == [want]) if want is not None else got == [""]
            state = f"base={base.name},limit={'set' if has_l else 'none'},offset={'set' if has_o else 'none'}"
            obs.append(Obligation(PROP, f"queries._SetOperation|page/grammar|{state}", "page/grammar",
                                  "queries._SetOperation.get_sql", PROVED if ok else REFUTED,
                                  detail=f"set operation over {base.name} operands renders {want!r}",
                                  reason="" if ok else f"emits {got}, the dialect's row-limiting clause is {want!r}",
                                  witness={"family": "call", "oracle": "pagination_setop", "args": [base.short, has_l, has_o]}))
    return obs


def param_order(item):
    """page/param-order: limit and offset are evaluated (hence recorded in the parameter list) in the order of
    their text (the O-LINEAR obligations of C04 on the pagination functions)"""
    from . import c04
    _k, fq, cq = item
    out = []
    for ob in c04.check_one((fq, cq, [])):
        ob.prop = PROP
        ob.kind = "page/param-order"
        ob.key = ob.key.replace("|linear/", "|page/param-")
        out.append(ob)
    return out


def _dispatch(item):
    if item[0] == "order":
        return param_order(item)
    if item[0] == "setop":
        return setop_grammar(item)
    return page_grammar(item) if item[0] == "grammar" else page_setter(item)


def generate(tier="quick"):
    r = repo()
    items = []
    qb = r.cls("queries.QueryBuilder")
    for ci in r.subclasses(qb):
        res = ci.resolve("_apply_pagination")
        items.append(("grammar", res[1].qual, ci.qual))
        items.append(("order", res[1].qual, ci.qual))
        for m in SETTERS:
            res = ci.resolve(m)
            if res and res[0] == "func":
                items.append(("setter", res[1].qual, ci.qual))
    so = r.cls("queries._SetOperation")
    items.append(("order", so.resolve("get_sql")[1].qual, so.qual))       # limit/offset of a set operation
    obs = parallel(_dispatch, items + [("setop", "", "")])
    return obs, {"functions": sorted({i[1] for i in items}), "closed_world": sorted({i[2] for i in items}),
                 "coverage_extra": {"exhaustive": True},
                 "assumptions": ["D4: 'grammatical in the target dialect' - PostgreSQL accepts a bare OFFSET, SQLite/"
                                 "MySQL/generic do not; the generic Query class renders for SQLite",
                                 "the meaning 'skip m rows, then return at most n' is the engines' (not covered)"]}
