"""C13 - statements are well-formed and independent of the order of commuting calls.

wf/balanced: the text of every render function is bracket-balanced (compositional over the result shape: literals
are tokenised, nested renders are balanced by the same family contract, quoted tokens are opaque).
wf/order: in every statement builder the clause keywords at bracket depth 0 occur at most once and in the dialect's
grammatical order, on every path through the optional clauses.  wf/empty: an incomplete builder renders ''.
(commute/pair is reported as not covered yet.)"""
from __future__ import annotations

import os
import re

import z3

from ..driver import run_function
from ..front import repo
from ..oblig import PROVED, REFUTED, UNKNOWN, UNSUPPORTED, Obligation
from ..values import CallA, Dyn, IteA, IteV, JoinA, K, Lit, Obj, OpA, QuoteA, S, Sym
from .base import canon, classes_using, parallel
from .positions import shape_of
from .render import eval_spec, flat_calls, recv_key, render_targets

PROP = "C13"


# ---------------------------------------------------------------------------------------- balanced
def lit_depth(text, depth):
    """(final depth, minimal depth) after scanning a literal; quotes inside literals are skipped"""
    mn = depth
    inq = None
    for ch in text:
        if inq:
            if ch == inq:
                inq = None
            continue
        if ch in "'":
            inq = ch
        elif ch in "([":
            depth += 1
        elif ch in ")]":
            depth -= 1
            mn = min(mn, depth)
    return depth, mn


def balance(atoms, depths, problems, where):
    """depths: set of possible bracket depths before `atoms`; returns the set after"""
    for a in atoms:
        if isinstance(a, Lit):
            new = set()
            for d in depths:
                d2, mn = lit_depth(a.s, d)
                if mn < 0:
                    problems.append(f"{where}: closing bracket without an opening one in {a.s!r}")
                new.add(d2)
            depths = new
        elif isinstance(a, IteA):
            da = balance(a.a, set(depths), problems, where)
            db = balance(a.b, set(depths), problems, where)
            depths = da | db
        elif isinstance(a, JoinA):
            for d in depths:
                ds, mn = lit_depth("".join(x.s for x in a.sep if isinstance(x, Lit)), d)
                if ds != d:
                    problems.append(f"{where}: separator {a.sep!r} of a joined list changes the bracket depth")
                if mn < 0:
                    problems.append(f"{where}: separator {a.sep!r} closes a bracket that is not open")
            inner = balance(a.body, {0}, problems, where + "/element")
            if inner != {0}:
                problems.append(f"{where}: one element of a joined list is not balanced")
        elif isinstance(a, OpA):
            if a.op in ("slice", "sep?"):
                continue       # s[:n] + X + s[n:] is accounted for through its (balanced) source text
            for x in a.args:
                if isinstance(x, S):
                    inner = balance(x.atoms, {0}, problems, where + f"/{a.op}")
        # CallA (family contract: balanced), Dyn (data tokens, C05/C07), QuoteA (one quoted token): depth unchanged
        if len(depths) > 8:
            problems.append(f"{where}: bracket depth depends on too many conditions")
            depths = {min(depths)}
    return depths


def check_balanced(item):
    fq, cq, covered = item
    r = repo()
    fi, ci = r.funcs[fq], r.classes[cq]
    name = f"{fi.short}@{ci.short}"
    run = run_function(fi, ci)
    if run.error:
        return [Obligation(PROP, f"{name}|wf/balanced", "wf/balanced", fi.short, UNSUPPORTED, reason=run.error)]
    ex = run.ex
    problems, n = [], 0
    for o in run.outcomes:
        if o.status != "return":
            continue
        ex.st = o.state
        ex.frames = []
        try:
            sh = shape_of(ex, o.value)
        except Exception:
            continue
        n += 1
        # helper functions taking the text so far (querystring) are balanced relative to it
        end = balance(sh.atoms, {0}, problems, fi.name)
        if end != {0} and not fi.name.endswith("_clauses"):
            problems.append(f"{fi.name}: brackets not balanced at the end of the text (depth {sorted(end)}): "
                            f"{str(sh)[:200]}")
    ps = sorted(set(problems))
    if not ps:
        return [Obligation(PROP, f"{name}|wf/balanced", "wf/balanced", fi.short, PROVED,
                           detail=f"brackets balanced on all {n} returning paths (literals tokenised, nested renders "
                                  f"balanced by the family contract)")]
    return [Obligation(PROP, f"{name}|wf/balanced|{canon(p)[:100]}", "wf/balanced", fi.short, REFUTED, detail=p,
                       reason=p, witness={"family": "call", "oracle": "wellformed", "args": [ci.short]}) for p in ps[:4]]


# ---------------------------------------------------------------------------------------- clause order
KEYWORDS = ["ON DUPLICATE KEY UPDATE", "INSERT IGNORE INTO", "DO UPDATE SET", "ON CONFLICT", "DO NOTHING",
            "FORCE INDEX", "INSERT INTO", "REPLACE INTO", "WITH ROLLUP", "WITH TOTALS", "FETCH NEXT", "FOR UPDATE",
            "USE INDEX", "RETURNING", "PREWHERE", "GROUP BY", "ORDER BY", "HAVING", "OFFSET", "SELECT",
            "UPDATE", "DELETE", "VALUES", "LIMIT", "WHERE", "INTO", "FROM", "JOIN", "WITH", "SET"]
KW_RE = re.compile(r"(?<![A-Z_])(" + "|".join(re.escape(k) for k in KEYWORDS) + r")(?![A-Z_])")

ORDERS = {
    "SELECT": ["WITH", "SELECT", "INTO", "FROM", "FORCE INDEX", "USE INDEX", "JOIN", "PREWHERE", "WHERE", "GROUP BY",
               "WITH TOTALS", "WITH ROLLUP", "HAVING", "ORDER BY", "LIMIT", "OFFSET", "FETCH NEXT", "FOR UPDATE",
               "ON CONFLICT", "WHERE#2", "ON DUPLICATE KEY UPDATE", "DO NOTHING", "DO UPDATE SET", "WHERE#3",
               "RETURNING"],
    "SELECT/mssql": ["WITH", "SELECT", "INTO", "FROM", "FORCE INDEX", "USE INDEX", "JOIN", "PREWHERE", "WHERE",
                     "GROUP BY", "WITH TOTALS", "WITH ROLLUP", "HAVING", "ORDER BY", "OFFSET", "FETCH NEXT",
                     "FOR UPDATE", "ON CONFLICT", "WHERE#2", "DO NOTHING", "DO UPDATE SET", "WHERE#3", "RETURNING"],
    "INSERT": ["WITH", "INSERT INTO", "INSERT IGNORE INTO", "REPLACE INTO", "VALUES", "SELECT", "FROM", "FORCE INDEX",
               "USE INDEX", "JOIN", "PREWHERE", "WHERE", "GROUP BY", "WITH TOTALS", "WITH ROLLUP", "HAVING",
               "ORDER BY", "LIMIT", "OFFSET", "FETCH NEXT", "FOR UPDATE", "ON CONFLICT", "WHERE#2",
               "ON DUPLICATE KEY UPDATE", "DO NOTHING", "DO UPDATE SET", "WHERE#3", "RETURNING"],
    "UPDATE": ["WITH", "UPDATE", "JOIN", "SET", "FROM", "WHERE", "ORDER BY", "LIMIT", "RETURNING"],
    "UPDATE/pg": ["WITH", "UPDATE", "SET", "FROM", "JOIN", "WHERE", "ORDER BY", "LIMIT", "RETURNING"],
    "DELETE": ["WITH", "DELETE", "FROM", "FORCE INDEX", "USE INDEX", "JOIN", "PREWHERE", "WHERE", "GROUP BY",
               "WITH TOTALS", "WITH ROLLUP", "HAVING", "ORDER BY", "LIMIT", "OFFSET", "FETCH NEXT", "FOR UPDATE",
               "ON CONFLICT", "WHERE#2", "ON DUPLICATE KEY UPDATE", "DO NOTHING", "DO UPDATE SET", "WHERE#3",
               "RETURNING"],
}
REPEATABLE = {"JOIN"}


def kind_table(kind, cls_short):
    d = cls_short.split(".")[-1]
    if kind == "UPDATE" and d in ("PostgreSQLQueryBuilder", "SQLLiteQueryBuilder"):
        return ORDERS["UPDATE/pg"]
    if kind in ("SELECT", "DELETE") and d in ("MSSQLQueryBuilder", "OracleQueryBuilder"):
        base = list(ORDERS["SELECT/mssql"])
        if kind == "DELETE":
            base = ["WITH", "DELETE"] + base[base.index("FROM"):]
        return base
    return ORDERS[kind]


def flatten_tokens(atoms, cond, depth, out):
    """clause keywords at bracket depth 0 in textual order with the condition under which they are emitted;
    returns the depth after the atoms (branches of an Ite are assumed to agree, see wf/balanced)"""
    for a in atoms:
        if isinstance(a, Lit):
            for m in re.finditer(r"[()]|" + KW_RE.pattern, a.s):
                tok = m.group(0)
                if tok == "(":
                    depth += 1
                elif tok == ")":
                    depth -= 1
                elif depth == 0:
                    out.append((tok, cond))
        elif isinstance(a, IteA):
            ca = a.c if cond is None else z3.And(cond, a.c)
            cb = z3.Not(a.c) if cond is None else z3.And(cond, z3.Not(a.c))
            da = flatten_tokens(a.a, ca, depth, out)
            db = flatten_tokens(a.b, cb, depth, out)
            depth = da if a.a else db
        elif isinstance(a, JoinA) and depth == 0:
            sub = []
            flatten_tokens(a.body, cond, depth, sub)
            # every element repeats the element's keywords (JOIN ... JOIN ...): mark them repeatable
            out.extend((t, c, "rep") if t in REPEATABLE else (t, c) for t, c in sub)
    return depth


def check_clause_order(ex, pc, atoms, cls_short, problems):
    toks = []
    flatten_tokens(atoms, None, 0, toks)
    feas = {}

    def feasible(*conds):
        cs = [c for c in conds if c is not None]
        key = tuple(sorted(c.get_id() for c in cs))
        if key not in feas:
            feas[key] = ex.smt.feasible(list(pc) + cs)
        return feas[key]

    kind_of = {"SELECT": "SELECT", "UPDATE": "UPDATE", "DELETE": "DELETE", "INSERT INTO": "INSERT",
               "REPLACE INTO": "INSERT", "INSERT IGNORE INTO": "INSERT"}
    starts = [(i, t) for i, t in enumerate(toks) if t[0] in kind_of and feasible(t[1])]
    seen_kind_conds = []
    for si, st in starts:
        # this token starts a statement only if no earlier kind keyword is emitted together with it
        if any(feasible(st[1], toks[j][1]) for j, _ in starts if j < si):
            continue
        kind = kind_of[st[0]]
        table = kind_table(kind, cls_short)
        seq = []
        n_conf = 0
        for j, t in enumerate(toks):
            if not feasible(st[1], t[1]):
                continue
            tok = t[0]
            if tok in ("ON CONFLICT", "ON DUPLICATE KEY UPDATE"):
                n_conf = max(n_conf, 1)
            if tok == "DO UPDATE SET":
                n_conf = 2
            name = tok
            if tok == "WHERE" and n_conf:
                name = "WHERE#2" if n_conf == 1 else "WHERE#3"
            if name not in table:
                if j >= si or tok != "WITH":
                    problems.append(f"{kind}: clause {tok} does not belong to a {kind} statement of this dialect")
                continue
            seq.append((table.index(name), name, t[1], len(t) == 3))
        for a in range(len(seq)):
            for b in range(a + 1, len(seq)):
                ra, na, ca, repa = seq[a]
                rb, nb, cb, repb = seq[b]
                if rb < ra or (rb == ra and not (repa and repb)):
                    if feasible(st[1], ca, cb):
                        problems.append(f"{kind}: clause {nb} occurs after {na} (out of order or repeated)")


def check_order(item):
    fq, cq, covered = item
    r = repo()
    fi, ci = r.funcs[fq], r.classes[cq]
    name = f"{fi.short}@{ci.short}"
    run = run_function(fi, ci)
    if run.error:
        return [Obligation(PROP, f"{name}|wf/order", "wf/order", fi.short, UNSUPPORTED, reason=run.error)]
    ex = run.ex
    problems, n = [], 0
    for o in run.outcomes:
        if o.status != "return":
            continue
        ex.st = o.state
        ex.frames = []
        sh = shape_of(ex, o.value)
        n += 1
        check_clause_order(ex, o.state.pc, sh.atoms, ci.short, problems)
    ps = sorted(set(problems))
    obs = []
    if not ps:
        obs.append(Obligation(PROP, f"{name}|wf/order", "wf/order", fi.short, PROVED,
                              detail=f"clause keywords at depth 0 occur at most once and in the dialect's order on "
                                     f"every combination of optional clauses ({n} returning paths)"))
    for p in ps[:5]:
        st = UNKNOWN if p.startswith("too many") else REFUTED
        obs.append(Obligation(PROP, f"{name}|wf/order|{canon(p)[:100]}", "wf/order", fi.short, st, detail=p, reason=p,
                              witness={"family": "call", "oracle": "wellformed", "args": [ci.short]}))
    # ---- wf/empty
    spec = {"QueryBuilder": "complete_query", "CreateQueryBuilder": "complete_create",
            "DropQueryBuilder": "complete_drop", "MySQLLoadQueryBuilder": "complete_load"}
    sname = None
    for k in ci.mro:
        if k.name in spec:
            sname = spec[k.name]
            break
    if sname:
        ok, why = True, ""
        for o in run.outcomes:
            if o.status != "return":
                continue
            ex.st = o.state
            ex.frames = []
            comp = ex.truth(eval_spec(ex, o.state, "complete", sname, [run.self_obj]))
            sh = shape_of(ex, o.value)
            pcc = o.state.pc + [z3.Not(comp)]
            if ex.smt.feasible(pcc) and not ex.smt.implied(pcc, z3.Not(ex.shape_nonempty(sh))):
                ok = False
                why = f"an incomplete builder may render a fragment: {str(sh)[:300]}"
        obs.append(Obligation(PROP, f"{name}|wf/empty", "wf/empty", fi.short, PROVED if ok else REFUTED,
                              detail="an incomplete builder (no statement kind chosen, or its mandatory part "
                                     "missing) renders the empty string", reason=why,
                              witness={"family": "call", "oracle": "incomplete", "args": [ci.short]}))
    return obs


def syntactic_rw(ci, fi, seen=None):
    import ast
    seen = set() if seen is None else seen
    if fi.qual in seen:
        return {}, set()
    seen.add(fi.qual)
    W, R = {}, set()
    for n in ast.walk(fi.node):
        if isinstance(n, ast.Attribute) and isinstance(n.value, ast.Name) and n.value.id == "self":
            if isinstance(n.ctx, ast.Store):
                W.setdefault(n.attr, set()).add("value")
            else:
                res = ci.resolve(n.attr)
                if res and res[0] == "func":
                    w2, r2 = syntactic_rw(ci, res[1], seen)
                    for k, v in w2.items():
                        W.setdefault(k, set()).update(v)
                    R |= r2
                else:
                    R.add(n.attr)
        if isinstance(n, ast.Call) and isinstance(n.func, ast.Attribute) and isinstance(n.func.value, ast.Attribute) \
                and isinstance(n.func.value.value, ast.Name) and n.func.value.value.id == "self" \
                and n.func.attr in ("append", "extend", "add", "update", "insert", "remove", "clear", "pop"):
            W.setdefault(n.func.value.attr, set()).add(n.func.attr)
        if isinstance(n, ast.AugAssign) and isinstance(n.target, ast.Attribute) and \
                isinstance(n.target.value, ast.Name) and n.target.value.id == "self":
            W.setdefault(n.target.attr, set()).add("value")
    return W, R


def rw_sets(ci, mname):
    """(written slots with the kinds of values, read slots) of the body of a builder method (without the copy)"""
    from . import c01
    fi = ci.resolve(mname)[1]
    run = run_function(fi, ci, undecorated=True, pre=c01._pre)
    if run.error:
        # outside the executor's Python subset: syntactic over-approximation of the read and write sets (every
        # self.X mentioned in the body and, transitively, in the methods it calls on self)
        return syntactic_rw(ci, fi) + (None,)
    W = {}
    for o in run.outcomes:
        for w in o.state.writes:
            if w.path == "self" and w.kind == "attr":
                W.setdefault(w.attr, set()).add("const-true" if repr(w.value) == "K(True)" else "value")
            elif w.path.startswith("self."):
                W.setdefault(w.path.split(".")[1].split("[")[0], set()).add(w.kind)
    R = {n for (p, n) in run.ex.reads_global if p == "self"}
    return W, R, None


class _Seq:
    """sequential composition by contract, for pairs of builder methods whose read/write sets overlap: the strongest
    truthiness post-condition of one method (slots it assigns on every returning path) is the pre-condition under
    which the other is executed"""

    def __init__(self, ci):
        self.ci = ci
        self.posts = {}
        self.rej = {}

    def post(self, m):
        """{slot: True/False}: on every returning path m assigns the slot a value that is provably truthy / falsy;
        None when m is outside the executor's subset; also whether m has a raising path at all"""
        if m in self.posts:
            return self.posts[m]
        import z3
        from . import c01
        fi = self.ci.resolve(m)[1]
        run = run_function(fi, self.ci, undecorated=True, pre=c01._pre)
        if run.error:
            self.posts[m] = None
            return None
        ex = run.ex
        per_path = []
        for o in run.outcomes:
            if o.status == "raise":
                continue
            ex.st = o.state
            last = {}
            for w in o.state.writes:
                if w.path == "self" and w.kind == "attr":
                    last[w.attr] = w
            facts = {}
            for a, w in last.items():
                if w.guard is not None and not ex.smt.implied(o.state.pc, w.guard):
                    continue
                t = ex.truth(w.value)
                if ex.smt.implied(o.state.pc, t):
                    facts[a] = True
                elif ex.smt.implied(o.state.pc, z3.Not(t)):
                    facts[a] = False
            per_path.append(facts)
        common = {}
        if per_path:
            for a in set.intersection(*[set(f) for f in per_path]):
                vals = {f[a] for f in per_path}
                if len(vals) == 1:
                    common[a] = vals.pop()
        self.posts[m] = (common, any(o.status == "raise" for o in run.outcomes), bool(per_path))
        return self.posts[m]

    def rejects_after(self, m, w):
        """every path of m raises when it starts in a state that satisfies w's post-condition (non-vacuously)"""
        if (m, w) in self.rej:
            return self.rej[(m, w)]
        import ast
        import z3
        from . import c01
        from ..state import Frame
        pw = self.post(w)
        pm = self.post(m)
        res = False
        if pw and pm and pw[0] and pm[1] and pw[2]:
            ci = self.ci
            facts = pw[0]

            def pre(ex, self_obj, params):
                c01._pre(ex, self_obj, params)
                for slot, val in sorted(facts.items()):
                    node = ast.parse(f"self.{slot}", mode="eval").body
                    ex.frames.append(Frame(None, ci, {"self": self_obj}, self_obj, ci.module))
                    try:
                        v = ex.eval(node)
                    finally:
                        ex.frames.pop()
                    t = ex.truth(v)
                    ex.st.pc.append(t if val else z3.Not(t))
            run = run_function(ci.resolve(m)[1], ci, undecorated=True, pre=pre)
            if not run.error and run.outcomes and all(o.status == "raise" for o in run.outcomes) and \
                    any(run.ex.smt.feasible(o.state.pc) for o in run.outcomes):
                res = sorted(facts.items())
        self.rej[(m, w)] = res
        return res

    def both_reject(self, m, w):
        a = self.rejects_after(m, w)
        b = a and self.rejects_after(w, m)
        return (a, b) if a and b else None


def check_commute(cq):
    """commute/reads, commute/writes: Bernstein's conditions between builder methods that address different clauses -
    a method reads no slot that a method of another clause writes, and two methods of different clauses write no
    common slot (except flags that every writer only ever sets to True)"""
    from contracts.spec.clauses import AUXILIARY, CLAUSE, NOT_CLAUSE_CALLS
    r = repo()
    ci = r.classes[cq]
    name = ci.short
    meths = sorted({n for k in ci.mro for n, f in k.methods.items() if "builder" in f.decorators} - NOT_CLAUSE_CALLS)
    info, obs = {}, []
    for m in meths:
        W, R, err = rw_sets(ci, m)
        if err:
            obs.append(Obligation(PROP, f"{name}|commute/reads|{m}", "commute/reads", f"{name}.{m}", UNSUPPORTED,
                                  reason=err))
            continue
        info[m] = (W, R)
    unknown = sorted({a for W, R in info.values() for a in W if a not in CLAUSE and a not in AUXILIARY})
    obs.append(Obligation(PROP, f"{name}|commute/clause-table", "commute/clause-table", name,
                          REFUTED if unknown else PROVED, backend="syntactic",
                          detail="every slot written by a builder method is assigned to a clause (or declared auxiliary)",
                          reason=f"slots without a clause: {unknown}" if unknown else "",
                          witness={"family": "call", "oracle": "commute", "args": [name, "", "", []]}))
    pending = []        # Bernstein's condition fails: decided by a bounded witness search on the real code
    from contracts.spec.clauses import METHOD_CLAUSE
    clause = {m: set(METHOD_CLAUSE.get(m, {CLAUSE[a] for a in W if a in CLAUSE})) for m, (W, R) in info.items()}
    # a method writes only slots of the clause(s) it is about (and auxiliary bookkeeping)
    for m, (W, R) in sorted(info.items()):
        if m not in METHOD_CLAUSE:
            continue
        foreign = sorted(a for a in W if a in CLAUSE and CLAUSE[a] not in METHOD_CLAUSE[m])
        obs.append(Obligation(PROP, f"{name}|commute/own-clause|{m}", "commute/own-clause", f"{name}.{m}",
                              REFUTED if foreign else PROVED,
                              detail=f"{m}() is about {sorted(METHOD_CLAUSE[m])} and writes {sorted(W)}",
                              reason=f"{m}() also writes {foreign}, slots of other clauses: calls addressing those "
                                     f"clauses do not commute with it" if foreign else "",
                              witness={"family": "call", "oracle": "commute",
                                       "args": [name, m, foreign[0] if foreign else "", sorted(
                                           w for w in info if w != m and foreign and foreign[0] in info[w][0])]}))
    different = lambda a, b: a != b and not (clause[a] & clause[b])
    for m, (W, R) in sorted(info.items()):
        for x in sorted(R):
            if x in ("immutable", "_wrapper_cls"):
                continue
            writers = sorted(w for w, (W2, _R2) in info.items() if different(m, w) and x in W2 and
                             not (W2[x] == {"const-true"} and x in AUXILIARY and False))
            ob = Obligation(PROP, f"{name}|commute/reads|{m}|{x}", "commute/reads", f"{name}.{m}",
                            REFUTED if writers else PROVED,
                            detail=f"{m}() reads {x}; methods of other clauses writing it: {writers or 'none'}",
                            reason=f"the effect of {m}() may depend on whether {writers} ran before it" if writers else "",
                            witness={"family": "call", "oracle": "commute", "args": [name, m, x, writers]})
            obs.append(ob)
            if writers:
                pending.append(ob)
    ms = sorted(info)
    for i, a in enumerate(ms):
        for b in ms[i + 1:]:
            if not different(a, b):
                continue
            common = sorted(set(info[a][0]) & set(info[b][0]))
            for x in common:
                sticky = info[a][0][x] == {"const-true"} and info[b][0][x] == {"const-true"}
                ob = Obligation(PROP, f"{name}|commute/writes|{a}|{b}|{x}", "commute/writes", f"{name}.{a}",
                                PROVED if sticky else REFUTED,
                                detail=f"{a}() and {b}() address different clauses and both write {x}"
                                       f"{': both only ever set it to True' if sticky else ''}",
                                reason="" if sticky else f"the last writer of {x} wins: the result may depend on the order",
                                witness={"family": "call", "oracle": "commute", "args": [name, a, x, [b]]})
                obs.append(ob)
                if not sticky:
                    pending.append(ob)
    # Bernstein's conditions are sufficient, not necessary: where they fail, a bounded search for two call orders that
    # render differently decides between a violation (with the failing input) and a bounded stand-in
    # ... nor necessary.  First a deductive refinement: if m raises on every path once w has run (executed under w's
    # post-condition) and w raises on every path once m has run, both call orders are rejected on every pre-state -
    # the two calls commute (neither order produces SQL)
    seq = _Seq(ci)
    still = []
    for ob in pending:
        parts = ob.key.split("|")
        if ob.kind == "commute/reads":
            m_, ws = parts[2], ob.witness["args"][3]
        else:
            m_, ws = parts[2], [parts[3]]
        try:
            proofs = [seq.both_reject(m_, w_) for w_ in ws]
        except Exception as e:         # outside the executor's subset: stays with the bounded search
            proofs = [None]
        if ws and all(proofs):
            ob.status, ob.reason, ob.backend = PROVED, "", "z3"
            ob.detail += ("; both call orders are rejected on every pre-state: " + "; ".join(
                f"{m_}() raises on every path under the post-condition of {w_}() {dict(pa)} and {w_}() raises on every "
                f"path under the post-condition of {m_}() {dict(pb)}" for w_, (pa, pb) in zip(ws, proofs)))
        else:
            still.append(ob)
    pending = still
    if pending:
        import json
        import subprocess
        from ..main import REPLAY_PY
        from ..oblig import VERIF, BOUNDED_OK
        req = [[ob.witness["oracle"], ob.witness["args"]] for ob in pending]
        try:
            pr = subprocess.run([REPLAY_PY, os.path.join(VERIF, "replaylib", "batch.py")], input=json.dumps(req),
                                capture_output=True, text=True, timeout=600,
                                env=dict(os.environ, PYTHONDONTWRITEBYTECODE="1"))
            res = json.loads(pr.stdout)
        except Exception as e:
            res = None
            for ob in pending:
                ob.status, ob.reason = UNKNOWN, f"witness search failed: {e!r}"
        if res is not None:
            for ob, w in zip(pending, res):
                if w:
                    ob.reason = f"{ob.reason}; witness: {w}"
                else:
                    ob.status = BOUNDED_OK
                    ob.bounded = ("Bernstein's condition fails; no order dependence found for 9 base builders x 16 x 16 "
                                  "argument tuples x both call orders (replaylib.oracles.commute)")
                    ob.backend = "bounded-witness-search"
    return obs


def _dispatch(item):
    if item[0] == "$order":
        return check_order(item[1:])
    if item[0] == "$commute":
        return check_commute(item[1])
    return check_balanced(item)


def generate(tier="quick"):
    r = repo()
    t = render_targets(r)
    items = list(t)
    for short in ("queries.QueryBuilder", "queries.CreateQueryBuilder", "queries.DropQueryBuilder",
                  "dialects.mysql.MySQLLoadQueryBuilder"):
        base = r.cls(short)
        for ci in r.subclasses(base):
            res = ci.resolve("get_sql")
            items.append(("$order", res[1].qual, ci.qual, []))
    for ci in r.subclasses(r.cls("queries.QueryBuilder")):
        items.append(("$commute", ci.qual, None, []))
    obs = parallel(_dispatch, items)
    return obs, {"functions": sorted({x[0] for x in t}), "closed_world": sorted({c for x in t for c in x[2]}),
                 "assumptions": ["clause-order tables in pyvc/props/c13.py / contracts/spec/grammar.py transcribe the "
                                 "dialect grammars named in the property",
                                 "commute: Bernstein's conditions over the read/write sets of the real builder bodies "
                                 "(sufficient for commutation; the converse is decided by the replay); the clause of "
                                 "each slot is declared in contracts/spec/clauses.py",
                                 "acceptance by SQLite's parser is the engine's (not covered)"]}
