"""C13 - statements are well-formed and independent of the order of commuting calls.

wf/balanced: the text of every render function is bracket-balanced (compositional over the result shape: literals
are tokenised, nested renders are balanced by the same family contract, quoted tokens are opaque).
wf/order: in every statement builder the clause keywords at bracket depth 0 occur at most once and in the dialect's
grammatical order, on every path through the optional clauses.  wf/empty: an incomplete builder renders ''.
(commute/pair is reported as not covered yet.)"""
from __future__ import annotations

import re

import z3

from ..driver import run_function
from ..front import repo
from ..oblig import PROVED, REFUTED, UNKNOWN, UNSUPPORTED, Obligation
from ..values import CallA, Dyn, IteA, IteV, JoinA, K, Lit, Obj, OpA, QuoteA, S, Sym
from .base import canon, classes_using, parallel
from .positions import shape_of
from .render import eval_spec, flat_calls, recv_key, render_targets

PROP = "C13"


# ---------------------------------------------------------------------------------------- balanced
def lit_depth(text, depth):
    """(final depth, minimal depth) after scanning a literal; quotes inside literals are skipped"""
    mn = depth
    inq = None
    for ch in text:
        if inq:
            if ch == inq:
                inq = None
            continue
        if ch in "'":
            inq = ch
        elif ch in "([":
            depth += 1
        elif ch in ")]":
            depth -= 1
            mn = min(mn, depth)
    return depth, mn


def balance(atoms, depths, problems, where):
    """depths: set of possible bracket depths before `atoms`; returns the set after"""
    for a in atoms:
        if isinstance(a, Lit):
            new = set()
            for d in depths:
                d2, mn = lit_depth(a.s, d)
                if mn < 0:
                    problems.append(f"{where}: closing bracket without an opening one in {a.s!r}")
                new.add(d2)
            depths = new
        elif isinstance(a, IteA):
            da = balance(a.a, set(depths), problems, where)
            db = balance(a.b, set(depths), problems, where)
            depths = da | db
        elif isinstance(a, JoinA):
            for d in depths:
                ds, mn = lit_depth("".join(x.s for x in a.sep if isinstance(x, Lit)), d)
                if ds != d:
                    problems.append(f"{where}: separator {a.sep!r} of a joined list changes the bracket depth")
                if mn < 0:
                    problems.append(f"{where}: separator {a.sep!r} closes a bracket that is not open")
            inner = balance(a.body, {0}, problems, where + "/element")
            if inner != {0}:
                problems.append(f"{where}: one element of a joined list is not balanced")
        elif isinstance(a, OpA):
            if a.op in ("slice", "sep?"):
                continue       # s[:n] + X + s[n:] is accounted for through its (balanced) source text
            for x in a.args:
                if isinstance(x, S):
                    inner = balance(x.atoms, {0}, problems, where + f"/{a.op}")
        # CallA (family contract: balanced), Dyn (data tokens, C05/C07), QuoteA (one quoted token): depth unchanged
        if len(depths) > 8:
            problems.append(f"{where}: bracket depth depends on too many conditions")
            depths = {min(depths)}
    return depths


def check_balanced(item):
    fq, cq, covered = item
    r = repo()
    fi, ci = r.funcs[fq], r.classes[cq]
    name = f"{fi.short}@{ci.short}"
    run = run_function(fi, ci)
    if run.error:
        return [Obligation(PROP, f"{name}|wf/balanced", "wf/balanced", fi.short, UNSUPPORTED, reason=run.error)]
    ex = run.ex
    problems, n = [], 0
    for o in run.outcomes:
        if o.status != "return":
            continue
        ex.st = o.state
        ex.frames = []
        try:
            sh = shape_of(ex, o.value)
        except Exception:
            continue
        n += 1
        # helper functions taking the text so far (querystring) are balanced relative to it
        end = balance(sh.atoms, {0}, problems, fi.name)
        if end != {0} and not fi.name.endswith("_clauses"):
            problems.append(f"{fi.name}: brackets not balanced at the end of the text (depth {sorted(end)}): "
                            f"{str(sh)[:200]}")
    ps = sorted(set(problems))
    if not ps:
        return [Obligation(PROP, f"{name}|wf/balanced", "wf/balanced", fi.short, PROVED,
                           detail=f"brackets balanced on all {n} returning paths (literals tokenised, nested renders "
                                  f"balanced by the family contract)")]
    return [Obligation(PROP, f"{name}|wf/balanced|{canon(p)[:100]}", "wf/balanced", fi.short, REFUTED, detail=p,
                       reason=p, witness={"family": "call", "oracle": "wellformed", "args": [ci.short]}) for p in ps[:4]]


# ---------------------------------------------------------------------------------------- clause order
KEYWORDS = ["ON DUPLICATE KEY UPDATE", "INSERT IGNORE INTO", "DO UPDATE SET", "ON CONFLICT", "DO NOTHING",
            "FORCE INDEX", "INSERT INTO", "REPLACE INTO", "WITH ROLLUP", "WITH TOTALS", "FETCH NEXT", "FOR UPDATE",
            "USE INDEX", "RETURNING", "PREWHERE", "GROUP BY", "ORDER BY", "HAVING", "OFFSET", "SELECT",
            "UPDATE", "DELETE", "VALUES", "LIMIT", "WHERE", "INTO", "FROM", "JOIN", "WITH", "SET"]
KW_RE = re.compile(r"(?<![A-Z_])(" + "|".join(re.escape(k) for k in KEYWORDS) + r")(?![A-Z_])")

ORDERS = {
    "SELECT": ["WITH", "SELECT", "INTO", "FROM", "FORCE INDEX", "USE INDEX", "JOIN", "PREWHERE", "WHERE", "GROUP BY",
               "WITH TOTALS", "WITH ROLLUP", "HAVING", "ORDER BY", "LIMIT", "OFFSET", "FETCH NEXT", "FOR UPDATE",
               "ON CONFLICT", "WHERE#2", "ON DUPLICATE KEY UPDATE", "DO NOTHING", "DO UPDATE SET", "WHERE#3",
               "RETURNING"],
    "SELECT/mssql": ["WITH", "SELECT", "INTO", "FROM", "FORCE INDEX", "USE INDEX", "JOIN", "PREWHERE", "WHERE",
                     "GROUP BY", "WITH TOTALS", "WITH ROLLUP", "HAVING", "ORDER BY", "OFFSET", "FETCH NEXT",
                     "FOR UPDATE", "ON CONFLICT", "WHERE#2", "DO NOTHING", "DO UPDATE SET", "WHERE#3", "RETURNING"],
    "INSERT": ["WITH", "INSERT INTO", "INSERT IGNORE INTO", "REPLACE INTO", "VALUES", "SELECT", "FROM", "FORCE INDEX",
               "USE INDEX", "JOIN", "PREWHERE", "WHERE", "GROUP BY", "WITH TOTALS", "WITH ROLLUP", "HAVING",
               "ORDER BY", "LIMIT", "OFFSET", "FETCH NEXT", "FOR UPDATE", "ON CONFLICT", "WHERE#2",
               "ON DUPLICATE KEY UPDATE", "DO NOTHING", "DO UPDATE SET", "WHERE#3", "RETURNING"],
    "UPDATE": ["WITH", "UPDATE", "JOIN", "SET", "FROM", "WHERE", "ORDER BY", "LIMIT", "RETURNING"],
    "UPDATE/pg": ["WITH", "UPDATE", "SET", "FROM", "JOIN", "WHERE", "ORDER BY", "LIMIT", "RETURNING"],
    "DELETE": ["WITH", "DELETE", "FROM", "FORCE INDEX", "USE INDEX", "JOIN", "PREWHERE", "WHERE", "GROUP BY",
               "WITH TOTALS", "WITH ROLLUP", "HAVING", "ORDER BY", "LIMIT", "OFFSET", "FETCH NEXT", "FOR UPDATE",
               "ON CONFLICT", "WHERE#2", "ON DUPLICATE KEY UPDATE", "DO NOTHING", "DO UPDATE SET", "WHERE#3",
               "RETURNING"],
}
REPEATABLE = {"JOIN"}


def kind_table(kind, cls_short):
    d = cls_short.split(".")[-1]
    if kind == "UPDATE" and d in ("PostgreSQLQueryBuilder", "SQLLiteQueryBuilder"):
        return ORDERS["UPDATE/pg"]
    if kind in ("SELECT", "DELETE") and d in ("MSSQLQueryBuilder", "OracleQueryBuilder"):
        base = list(ORDERS["SELECT/mssql"])
        if kind == "DELETE":
            base = ["WITH", "DELETE"] + base[base.index("FROM"):]
        return base
    return ORDERS[kind]


def flatten_tokens(atoms, cond, depth, out):
    """clause keywords at bracket depth 0 in textual order with the condition under which they are emitted;
    returns the depth after the atoms (branches of an Ite are assumed to agree, see wf/balanced)"""
    for a in atoms:
        if isinstance(a, Lit):
            for m in re.finditer(r"[()]|" + KW_RE.pattern, a.s):
                tok = m.group(0)
                if tok == "(":
                    depth += 1
                elif tok == ")":
                    depth -= 1
                elif depth == 0:
                    out.append((tok, cond))
        elif isinstance(a, IteA):
            ca = a.c if cond is None else z3.And(cond, a.c)
            cb = z3.Not(a.c) if cond is None else z3.And(cond, z3.Not(a.c))
            da = flatten_tokens(a.a, ca, depth, out)
            db = flatten_tokens(a.b, cb, depth, out)
            depth = da if a.a else db
        elif isinstance(a, JoinA) and depth == 0:
            sub = []
            flatten_tokens(a.body, cond, depth, sub)
            # every element repeats the element's keywords (JOIN ... JOIN ...): mark them repeatable
            out.extend((t, c, "rep") if t in REPEATABLE else (t, c) for t, c in sub)
    return depth


def check_clause_order(ex, pc, atoms, cls_short, problems):
    toks = []
    flatten_tokens(atoms, None, 0, toks)
    feas = {}

    def feasible(*conds):
        cs = [c for c in conds if c is not None]
        key = tuple(sorted(c.get_id() for c in cs))
        if key not in feas:
            feas[key] = ex.smt.feasible(list(pc) + cs)
        return feas[key]

    kind_of = {"SELECT": "SELECT", "UPDATE": "UPDATE", "DELETE": "DELETE", "INSERT INTO": "INSERT",
               "REPLACE INTO": "INSERT", "INSERT IGNORE INTO": "INSERT"}
    starts = [(i, t) for i, t in enumerate(toks) if t[0] in kind_of and feasible(t[1])]
    seen_kind_conds = []
    for si, st in starts:
        # this token starts a statement only if no earlier kind keyword is emitted together with it
        if any(feasible(st[1], toks[j][1]) for j, _ in starts if j < si):
            continue
        kind = kind_of[st[0]]
        table = kind_table(kind, cls_short)
        seq = []
        n_conf = 0
        for j, t in enumerate(toks):
            if not feasible(st[1], t[1]):
                continue
            tok = t[0]
            if tok in ("ON CONFLICT", "ON DUPLICATE KEY UPDATE"):
                n_conf = max(n_conf, 1)
            if tok == "DO UPDATE SET":
                n_conf = 2
            name = tok
            if tok == "WHERE" and n_conf:
                name = "WHERE#2" if n_conf == 1 else "WHERE#3"
            if name not in table:
                if j >= si or tok != "WITH":
                    problems.append(f"{kind}: clause {tok} does not belong to a {kind} statement of this dialect")
                continue
            seq.append((table.index(name), name, t[1], len(t) == 3))
        for a in range(len(seq)):
            for b in range(a + 1, len(seq)):
                ra, na, ca, repa = seq[a]
                rb, nb, cb, repb = seq[b]
                if rb < ra or (rb == ra and not (repa and repb)):
                    if feasible(st[1], ca, cb):
                        problems.append(f"{kind}: clause {nb} occurs after {na} (out of order or repeated)")


def check_order(item):
    fq, cq, covered = item
    r = repo()
    fi, ci = r.funcs[fq], r.classes[cq]
    name = f"{fi.short}@{ci.short}"
    run = run_function(fi, ci)
    if run.error:
        return [Obligation(PROP, f"{name}|wf/order", "wf/order", fi.short, UNSUPPORTED, reason=run.error)]
    ex = run.ex
    problems, n = [], 0
    for o in run.outcomes:
        if o.status != "return":
            continue
        ex.st = o.state
        ex.frames = []
        sh = shape_of(ex, o.value)
        n += 1
        check_clause_order(ex, o.state.pc, sh.atoms, ci.short, problems)
    ps = sorted(set(problems))
    obs = []
    if not ps:
        obs.append(Obligation(PROP, f"{name}|wf/order", "wf/order", fi.short, PROVED,
                              detail=f"clause keywords at depth 0 occur at most once and in the dialect's order on "
                                     f"every combination of optional clauses ({n} returning paths)"))
    for p in ps[:5]:
        st = UNKNOWN if p.startswith("too many") else REFUTED
        obs.append(Obligation(PROP, f"{name}|wf/order|{canon(p)[:100]}", "wf/order", fi.short, st, detail=p, reason=p,
                              witness={"family": "call", "oracle": "wellformed", "args": [ci.short]}))
    # ---- wf/empty
    spec = {"QueryBuilder": "complete_query", "CreateQueryBuilder": "complete_create",
            "DropQueryBuilder": "complete_drop", "MySQLLoadQueryBuilder": "complete_load"}
    sname = None
    for k in ci.mro:
        if k.name in spec:
            sname = spec[k.name]
            break
    if sname:
        ok, why = True, ""
        for o in run.outcomes:
            if o.status != "return":
                continue
            ex.st = o.state
            ex.frames = []
            comp = ex.truth(eval_spec(ex, o.state, "complete", sname, [run.self_obj]))
            sh = shape_of(ex, o.value)
            pcc = o.state.pc + [z3.Not(comp)]
            if ex.smt.feasible(pcc) and not ex.smt.implied(pcc, z3.Not(ex.shape_nonempty(sh))):
                ok = False
                why = f"an incomplete builder may render a fragment: {str(sh)[:300]}"
        obs.append(Obligation(PROP, f"{name}|wf/empty", "wf/empty", fi.short, PROVED if ok else REFUTED,
                              detail="an incomplete builder (no statement kind chosen, or its mandatory part "
                                     "missing) renders the empty string", reason=why,
                              witness={"family": "call", "oracle": "incomplete", "args": [ci.short]}))
    return obs


def _dispatch(item):
    if item[0] == "$order":
        return check_order(item[1:])
    return check_balanced(item)


def generate(tier="quick"):
    r = repo()
    t = render_targets(r)
    items = list(t)
    for short in ("queries.QueryBuilder", "queries.CreateQueryBuilder", "queries.DropQueryBuilder",
                  "dialects.mysql.MySQLLoadQueryBuilder"):
        base = r.cls(short)
        for ci in r.subclasses(base):
            res = ci.resolve("get_sql")
            items.append(("$order", res[1].qual, ci.qual, []))
    obs = parallel(_dispatch, items)
    return obs, {"functions": sorted({x[0] for x in t}), "closed_world": sorted({c for x in t for c in x[2]}),
                 "assumptions": ["clause-order tables in pyvc/props/c13.py / contracts/spec/grammar.py transcribe the "
                                 "dialect grammars named in the property",
                                 "commute/pair (order-independence of commuting calls) is NOT covered by this check "
                                 "yet; acceptance by SQLite's parser is the engine's (not covered)"]}
