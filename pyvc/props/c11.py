"""C11 - column references are qualified exactly when needed and by the right name.

Obligations: ns/decision, ns/site (positions.py: every clause of every statement builder is rendered with
with_namespace == NS(self), bare positions with False); leaf obligations here: ns/field, ns/star (qualifier printed
iff table and (with_namespace or table.alias); qualifier text = quoted table name), ns/table-name
(Table.get_table_name == alias or name; other selectables: alias)."""
from __future__ import annotations

import z3

from ..driver import run_function
from ..front import repo
from ..oblig import PROVED, REFUTED, UNKNOWN, UNSUPPORTED, Obligation
from ..smt import FALSE, TRUE, disj
from ..values import Dyn, IteA, IteV, JoinA, K, Lit, OpA, QuoteA, S, Sym
from .base import parallel
from .positions import generate_for, shape_of
from .render import eval_spec, same_value

PROP = "C11"


def qualifier_atoms(atoms, cond=None, tail_dot=False):
    """[(guard, QuoteA)] for quoted atoms directly followed by a '.' literal (the literal may have been factored
    out of a conditional as its common suffix)"""
    out = []
    atoms = list(atoms)
    for i, a in enumerate(atoms):
        dot = (isinstance(atoms[i + 1], Lit) and atoms[i + 1].s.startswith(".")) if i + 1 < len(atoms) else tail_dot
        if isinstance(a, IteA):
            out += qualifier_atoms(a.a, a.c if cond is None else z3.And(cond, a.c), dot)
            out += qualifier_atoms(a.b, z3.Not(a.c) if cond is None else z3.And(cond, z3.Not(a.c)), dot)
        elif isinstance(a, QuoteA) and dot:
            out.append((cond if cond is not None else TRUE, a))
    return out


def collapse(ex, atoms, pc):
    """flatten a shape under pc: Ite atoms whose condition is decided are replaced by the taken branch"""
    out = []
    for a in atoms:
        if isinstance(a, IteA):
            if ex.smt.implied(pc, a.c):
                out.extend(collapse(ex, a.a, pc))
            elif ex.smt.implied(pc, z3.Not(a.c)):
                out.extend(collapse(ex, a.b, pc))
            else:
                out.append(a)
        elif isinstance(a, QuoteA):
            out.append(QuoteA(tuple(collapse(ex, a.inner, pc)), a.q))
        elif isinstance(a, OpA):
            out.append(OpA(a.op, tuple(S(tuple(collapse(ex, x.atoms, pc))) if isinstance(x, S) else x
                                       for x in a.args)))
        else:
            out.append(a)
    return out


def leaf(item):
    kind, fq, cq = item
    r = repo()
    fi, ci = r.funcs[fq], r.classes[cq]
    name = f"{fi.short}@{ci.short}"
    run = run_function(fi, ci)
    if run.error:
        return [Obligation(PROP, f"{name}|{kind}", kind, fi.short, UNSUPPORTED, reason=run.error)]
    ex = run.ex
    obs = []
    if kind == "ns/table-name":
        spec = "table_name_of_table" if ci.short == "queries.Table" or r.cls("queries.Table") in ci.mro else None
        ok, why = True, ""
        for o in run.outcomes:
            if o.status != "return":
                continue
            ex.st = o.state
            if spec:
                want = eval_spec(ex, o.state, "ns", spec, [run.self_obj])
            else:
                want = ex.get_attr(run.self_obj, "alias")
            got = o.value
            if not (same_value(ex, got, want) or repr(got) == repr(want)):
                ok, why = False, f"returns {got!r}, the rule says {want!r}"
        return [Obligation(PROP, f"{name}|ns/table-name", "ns/table-name", fi.short, PROVED if ok else REFUTED,
                           detail="the qualifier of a source is its alias, else (tables) its name",
                           reason=why, witness={"family": "call", "oracle": "qualifier_name", "args": [ci.short]})]
    # ns/field, ns/star
    dec_ok, name_ok, why1, why2, n = True, True, "", "", 0
    for o in run.outcomes:
        if o.status != "return":
            continue
        n += 1
        ex.st = o.state
        ex.frames = []
        sh = shape_of(ex, o.value)
        quals = qualifier_atoms(sh.atoms)
        printed = disj([g for g, _ in quals])
        want = ex.truth(eval_spec(ex, o.state, "ns", "field_qualified", [run.self_obj, run.params["ctx"]],
                                  in_module="pypika_tortoise.terms"))
        if not ex.smt.implied(o.state.pc, printed == want):
            dec_ok, why1 = False, f"qualifier printed iff {z3.simplify(printed)}; the rule says iff {z3.simplify(want)}"
        for g, q in quals:
            if not ex.smt.feasible(o.state.pc + [g]):
                continue
            inner = q.inner
            okq = False
            if len(inner) == 1 and isinstance(inner[0], Dyn) and isinstance(inner[0].v, Sym):
                p = inner[0].v.path
                okq = p == "self.table.get_table_name()"
            if not okq:
                # alias else table name, spelled out: check both cases for a Table source
                tbl = ex.tags.sub(r.cls("queries.Table"))
                is_table = ex.smt.tag_in("self.table", tbl, ex.tags.of_spec("Selectable|None"))
                has_alias = ex.smt.truthy("self.table.alias", ex.tags.of_spec("name|None"))
                okq = True
                for cond, want_path in (([has_alias], "self.table.alias"),
                                        ([z3.Not(has_alias), is_table], "self.table._table_name")):
                    pcc = o.state.pc + [g] + cond
                    if not ex.smt.feasible(pcc):
                        continue
                    flat = collapse(ex, inner, pcc)
                    if not (len(flat) == 1 and isinstance(flat[0], Dyn) and isinstance(flat[0].v, Sym)
                            and flat[0].v.path == want_path):
                        okq = False
            qc_ok = isinstance(q.q, Sym) and q.q.path == "ctx.quote_char"
            if not (okq and qc_ok):
                name_ok, why2 = False, f"qualifier text is {q!r}; expected the quoted alias-else-name of the table"
    if n:
        obs.append(Obligation(PROP, f"{name}|{kind}/decision", kind, fi.short, PROVED if dec_ok else REFUTED,
                              detail="the qualifier is printed iff table and (ctx.with_namespace or table.alias)",
                              reason=why1, witness={"family": "call", "oracle": "field_qualification",
                                                    "args": [ci.short]}))
        obs.append(Obligation(PROP, f"{name}|{kind}/name", kind, fi.short, PROVED if name_ok else REFUTED,
                              detail="the qualifier is the quoted alias of the source, else its table name",
                              reason=why2, witness={"family": "call", "oracle": "field_qualification",
                                                    "args": [ci.short]}))
    return obs


def foreign_flag(item):
    """ns/foreign-flag: where()/prewhere() never clear the foreign-table flag (it is sticky: once a criterion
    mentioned a table outside the statement's sources, every reference stays qualified)"""
    from . import c01
    from ..values import Obj
    _k, fq, cq = item
    r = repo()
    fi, ci = r.funcs[fq], r.classes[cq]
    name = f"{fi.short}@{ci.short}"
    run = run_function(fi, ci, pre=c01._pre)
    if run.error:
        return [Obligation(PROP, f"{name}|ns/foreign-flag", "ns/foreign-flag", fi.short, UNSUPPORTED, reason=run.error)]
    ex = run.ex
    old = ex.smt.atom("self._foreign_table")
    ok, why, n = True, "", 0
    for o in run.outcomes:
        if o.status != "return" or not isinstance(o.value, Obj):
            continue
        ex.st = o.state
        ex.frames = []
        try:
            v = ex.get_attr(o.value, "_foreign_table")
            f = ex.truth(v)
        except Exception as e:
            ok, why = False, f"cannot read the flag of the result: {e!r}"
            continue
        n += 1
        pcc = o.state.pc + [old]
        if ex.smt.feasible(pcc) and not ex.smt.implied(pcc, f):
            ok, why = False, f"the flag was set before the call but may be cleared by it: new value {z3.simplify(f)}"
    return [Obligation(PROP, f"{name}|ns/foreign-flag", "ns/foreign-flag", fi.short, PROVED if ok and n else
                       (REFUTED if not ok else UNKNOWN),
                       detail=f"{fi.name}() keeps the foreign-table flag once it is set ({n} returning paths)",
                       reason=why, witness={"family": "call", "oracle": "foreign_flag", "args": [ci.short, fi.name]})]


def validate_table(item):
    """ns/validate: _validate_table decides per FIELD of the term (term.fields_()) whether its table - any kind of
    source: table, sub-query, set operation, CTE reference - is a source of the statement"""
    _k, fq, cq = item
    r = repo()
    fi, ci = r.funcs[fq], r.classes[cq]
    name = f"{fi.short}@{ci.short}"
    run = run_function(fi, ci, overrides={"term": "Term"})
    if run.error:
        return [Obligation(PROP, f"{name}|ns/validate", "ns/validate", fi.short, UNSUPPORTED, reason=run.error)]
    bad = []
    import re as _re
    used = set()
    for o in run.outcomes:
        txt = " ".join(repr(e.seq) for e in o.state.effects if e.seq is not None) + " " + \
            " ".join(str(p) for p in o.state.pc) + " " + " ".join(repr(e.recv) + e.method for e in o.state.effects)
        used |= set(_re.findall(r"term\.(\w+)", txt)) | {e.method for e in o.state.effects
                                                         if e.kind == "call" and "term" in repr(e.recv)}
    used -= {"table"}
    if "fields_" not in used:
        bad.append(f"the term is not examined through term.fields_() (uses: {sorted(used)})")
    if used - {"fields_"}:
        bad.append(f"the term is examined through {sorted(used - {'fields_'})} instead of / besides its fields")
    # the membership tests use the field's table and the statement's sources
    alltxt = " ".join(" ".join(str(p) for p in o.state.pc) for o in run.outcomes)
    for need, what in ((".table", "the field's table"), ("_from", "the FROM sources"), ("_joins", "the joined items")):
        if need not in alltxt and need not in " ".join(repr(h.parts) for o in run.outcomes for h in o.state.heap.values()):
            bad.append(f"the decision does not depend on {what}")
    return [Obligation(PROP, f"{name}|ns/validate", "ns/validate", fi.short, REFUTED if bad else PROVED,
                       detail="the foreign-table test iterates term.fields_() and tests each field's table against FROM, "
                              "the UPDATE target and the joined items", reason="; ".join(sorted(set(bad))[:3]),
                       witness={"family": "call", "oracle": "foreign_flag", "args": [ci.short]})]


def orderby_str(item):
    """ns/str-column: a column given by name to orderby()/groupby() becomes a Field of the first FROM source (so that
    it is qualified whenever the statement qualifies its references)"""
    from . import c01
    _k, fq, cq = item
    r = repo()
    fi, ci = r.funcs[fq], r.classes[cq]
    name = f"{fi.short}@{ci.short}"
    run = run_function(fi, ci, pre=c01._pre, undecorated=True)
    if run.error:
        return [Obligation(PROP, f"{name}|ns/str-column", "ns/str-column", fi.short, UNSUPPORTED, reason=run.error)]
    bad, n = [], 0
    field = r.cls("terms.Field")
    for o in run.outcomes:
        for h in o.state.heap.values():
            if h.fresh and h.cls is field:
                n += 1
                t = h.attrs.get("table")
                if t is None or "self._from" not in repr(t):
                    bad.append(f"a Field created from a column name has table {t!r}")
    return [Obligation(PROP, f"{name}|ns/str-column", "ns/str-column", fi.short, REFUTED if bad else PROVED,
                       detail=f"{n} Field object(s) created from names are bound to self._from[0]",
                       reason="; ".join(sorted(set(bad))[:2]),
                       witness={"family": "call", "oracle": "field_qualification", "args": [ci.short]})]


def _dispatch(item):
    if item[0] == "ns/validate":
        return validate_table(item)
    if item[0] == "ns/str-column":
        return orderby_str(item)
    if item[0] == "ns/foreign-flag":
        return foreign_flag(item)
    return leaf(item)


def generate(tier="quick"):
    obs, meta = generate_for(PROP, tier)
    r = repo()
    items = [("ns/field", "pypika_tortoise.terms.Field.get_sql", "pypika_tortoise.terms.Field"),
             ("ns/star", "pypika_tortoise.terms.Star.get_sql", "pypika_tortoise.terms.Star"),
             ("ns/table-name", "pypika_tortoise.queries.Table.get_table_name", "pypika_tortoise.queries.Table")]
    for c in ("AliasedQuery", "Cte", "QueryBuilder", "_SetOperation"):
        ci = r.cls("queries." + c)
        res = ci.resolve("get_table_name")
        items.append(("ns/table-name", res[1].qual, ci.qual))
    from .base import classes_using
    for m in ("where", "prewhere"):
        fi = r.func("queries.QueryBuilder." + m)
        for ci in classes_using(r, fi):
            items.append(("ns/foreign-flag", fi.qual, ci.qual))
    vt = r.func("queries.QueryBuilder._validate_table")
    for ci in classes_using(r, vt):
        items.append(("ns/validate", vt.qual, ci.qual))
    for m in ("orderby", "groupby"):
        fi = r.func("queries.QueryBuilder." + m)
        items.append(("ns/str-column", fi.qual, fi.cls.qual))
    obs = obs + parallel(_dispatch, items, procs=8)
    meta["functions"] = sorted(set(meta["functions"]) | {i[1] for i in items})
    return obs, meta
