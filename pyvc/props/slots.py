"""O-SLOTS (DESIGN §4.6): the child slots a class renders, traverses (nodes_) and rebuilds (replace_table)."""
from __future__ import annotations

import re

from ..driver import run_function
from ..front import repo
from ..values import Obj, Sym
from .base import canon
from .render import flat_calls, recv_key


def _slots_of_calls(ex, run, method):
    out = set()
    for o in run.outcomes:
        if o.status == "raise":
            continue
        ex.st = o.state
        for ef, g, _l in flat_calls(o.state.effects):
            if ef.method != method:
                continue
            rk = recv_key(ex, ef, o.state)
            if rk.startswith("self."):
                out.add(rk)
    return out


def render_slots(ci):
    """attribute paths of self whose get_sql is called when an instance of ci is rendered (and whose value may be
    a term/selectable - schemas, SQL types and index names carry no table references)"""
    r = repo()
    res = ci.resolve("get_sql")
    if not res or res[0] != "func":
        return None, "no get_sql"
    run = run_function(res[1], ci)
    if run.error:
        return None, run.error
    ex = run.ex
    carriers = ex.tags.sub(r.cls("terms.Term")) | ex.tags.sub(r.cls("queries.Selectable"))
    carriers = carriers - ex.tags.sub(r.cls("terms.Index")) - ex.tags.sub(r.cls("terms.PseudoColumn")) - \
        ex.tags.sub(r.cls("terms.Parameter"))
    out = set()
    indirect = False
    for o in run.outcomes:
        if o.status == "raise":
            continue
        ex.st = o.state
        for ef, g, _l in flat_calls(o.state.effects):
            if ef.method != "get_sql":
                continue
            if ef.recv_tags is not None and not (ef.recv_tags & carriers):
                continue
            rk = recv_key(ex, ef, o.state)
            if rk.startswith("self."):
                out.add(rk)
            else:
                indirect = True
    # a slot may reach the text through an intermediate object built during rendering
    # (`Criterion.all(self._filters).get_sql(ctx)`): when get_sql renders such an object, every slot it reads whose
    # declared type is Node / list[Node] counts as rendered
    if indirect:
        have = {x.replace("[*]", "").split(".")[1] for x in out}
        for pth, n in sorted(ex.reads_global):
            if pth != "self" or n in have:
                continue
            spec = (ex.slot_spec(ci, n) or "").replace(" ", "")
            if spec == "list[Node]":
                out.add(f"self.{n}[*]")
            elif spec in ("Node", "Node|None"):
                out.add(f"self.{n}")
    return out, None


def method_slots(ci, name, method):
    """slots on which `method` is invoked inside ci.<name> (nodes_ / replace_table)"""
    res = ci.resolve(name)
    if not res or res[0] != "func":
        return None, f"no {name}", None
    run = run_function(res[1], ci)
    if run.error:
        return None, run.error, None
    return _slots_of_calls(run.ex, run, method), None, run
