"""C17 - equality and hashing of tables, schemas and queries are coherent; field/table collection is complete.

eq/refl     x == x is True (symbolic execution of the real __eq__ with other := self).
eq/shape    __eq__ is `isinstance(other, C)` and a conjunction of equalities between the same attribute of both
            operands - hence symmetric and transitive whenever the attribute equalities are (Schema: by induction on
            the parent chain).
eq/ne       __ne__ is the negation of __eq__ (z3 equivalence of the two result formulas).
eq/hash     the attributes the hash depends on (read set of the real __hash__, through str()/get_sql of self) are
            among those equality compares, so equal objects hash equally.
collect/dedup   fields are de-duplicated through Term.__hash__ (rendering under the default context): the hash
            key of a Field must determine its (table, name).
collect/nodes   nodes_() traverses every slot the class renders (slots derived from the real get_sql)."""
from __future__ import annotations

import re

import z3

from ..driver import run_function, tags
from ..front import repo
from ..oblig import PROVED, REFUTED, UNKNOWN, UNSUPPORTED, Obligation
from ..symex import Exec
from ..values import B, IteV, K, Obj, S, Sym
from .base import canon, classes_using, parallel
from .render import flat_calls, recv_key
from .slots import method_slots, render_slots

PROP = "C17"
EQ_CLASSES = ["queries.Table", "queries.Schema", "queries.AliasedQuery", "queries.QueryBuilder"]


def run_eq(ci, name, other_is_self=False):
    r = repo()
    fi = ci.resolve(name)[1]
    ex = Exec(r, tags(r))
    import time
    ex.deadline = time.time() + 120
    a = ex.alloc("inst", False, "self", cls=ci)
    ex.path_obj["self"] = a.oid
    if other_is_self:
        b = a
    else:
        b = ex.alloc("inst", False, "other", cls=ci)
        ex.path_obj["other"] = b.oid
    outs = ex.explore(lambda: ex.call_function(fi, [a, b], {}, a))
    return ex, outs, fi


def formula_of(ex, outs):
    """the result of a boolean function as one z3 formula over all paths"""
    fs = []
    for o in outs:
        if o.status != "normal":
            return None
        ex.st = o.state
        fs.append(z3.And(z3.And(o.state.pc) if o.state.pc else z3.BoolVal(True), ex.truth(o.value)))
    return z3.simplify(z3.Or(fs)) if fs else None


def check_eq(item):
    cq = item
    r = repo()
    ci = r.classes[cq]
    obs = []
    name = ci.short
    # reflexive
    ex, outs, fi = run_eq(ci, "__eq__", other_is_self=True)
    f = formula_of(ex, outs)
    ok = f is not None and ex.smt.check([], z3.Not(f)) == "unsat"
    obs.append(Obligation(PROP, f"{fi.short}@{name}|eq/refl", "eq/refl", fi.short, PROVED if ok else REFUTED,
                          detail="x == x", reason="" if ok else f"x == x is {f}",
                          witness={"family": "call", "oracle": "eq_laws", "args": [name]}))
    # shape: conjunction of equalities between the same attribute of self and other
    ex, outs, fi = run_eq(ci, "__eq__")
    f = formula_of(ex, outs)
    bad = []
    compared = set()
    if f is None:
        bad.append("__eq__ does not return on every path")
    else:
        ids = ex.smt.atoms_of(f)
        for key, a in ex.smt.atoms.items():
            if a.get_id() not in ids:
                continue
            if key.startswith("eq!"):
                l, rr = key[3:].split("|", 1)
                ls, rs = sorted([l, rr])
                if not (ls.startswith("other.") and rs.startswith("self.") and ls[len("other."):] == rs[len("self."):]):
                    bad.append(f"compares {l} with {rr}")
                else:
                    compared.add(rs[len("self."):].split(".")[0].split("(")[0])
            elif key.startswith("truthy!") or key.startswith("is!"):
                bad.append(f"depends on {key}")
        for (p, names), a in ex.smt.tagatoms.items():
            if a.get_id() in ids and not p.startswith("other") and "." in p:
                pass
        # the formula must be monotone in the equality atoms: assuming all compared attributes equal gives True
        eqs = [a for k, a in ex.smt.atoms.items() if k.startswith("eq!") and a.get_id() in ids]
        if ex.smt.check(eqs, z3.Not(f)) != "unsat":
            bad.append("is not implied by the equality of the compared attributes")
    obs.append(Obligation(PROP, f"{fi.short}@{name}|eq/shape", "eq/shape", fi.short, PROVED if not bad else REFUTED,
                          detail=f"== is isinstance(other, {ci.name}) and equality of {sorted(compared)} on both sides "
                                 f"(an equivalence relation)", reason="; ".join(bad),
                          witness={"family": "call", "oracle": "eq_laws", "args": [name]}))
    # symmetry: a == b and b == a are the same formula (both operands of the same class)
    exs, outs_ab, fis = run_eq(ci, "__eq__")
    a_, b_ = Obj(exs.path_obj["self"]), Obj(exs.path_obj["other"])
    outs_ba = exs.explore(lambda: exs.call_function(fis, [b_, a_], {}, b_))
    fab, fba = formula_of(exs, outs_ab), formula_of(exs, outs_ba)
    if fab is not None and fba is not None:
        sym = exs.smt.check([], z3.Xor(fab, fba)) == "unsat"
        obs.append(Obligation(PROP, f"{fis.short}@{name}|eq/sym", "eq/sym", fis.short, PROVED if sym else REFUTED,
                              detail="(a == b) == (b == a) for two objects of the class",
                              reason="" if sym else f"a == b: {fab}; b == a: {fba}"[:600],
                              witness={"family": "call", "oracle": "eq_laws", "args": [name]}))
    # __ne__
    if ci.resolve("__ne__") and ci.resolve("__ne__")[0] == "func" and ci.resolve("__ne__")[1].cls is not None and \
            ci.resolve("__ne__")[1].cls.name not in ("Term",):
        ex2, outs2, fi2 = run_eq(ci, "__ne__")
        # evaluate __eq__ in the same executor for comparable atoms
        a, b = Obj(ex2.path_obj["self"]), Obj(ex2.path_obj["other"])
        outs_eq = ex2.explore(lambda: ex2.call_function(ci.resolve("__eq__")[1], [a, b], {}, a))
        fne, feq = formula_of(ex2, outs2), formula_of(ex2, outs_eq)
        ok = fne is not None and feq is not None and ex2.smt.check([], z3.Xor(fne, z3.Not(feq))) == "unsat"
        obs.append(Obligation(PROP, f"{fi2.short}@{name}|eq/ne", "eq/ne", fi2.short, PROVED if ok else REFUTED,
                              detail="(a != b) == not (a == b)", reason="" if ok else f"ne: {fne}; eq: {feq}",
                              witness={"family": "call", "oracle": "eq_laws", "args": [name]}))
    # hash footprint
    hres = ci.resolve("__hash__")
    if hres and hres[0] == "func":
        hrun = run_function(hres[1], ci, inline_self=True)
        if hrun.error:
            obs.append(Obligation(PROP, f"{hres[1].short}@{name}|eq/hash", "eq/hash", hres[1].short, UNSUPPORTED,
                                  reason=hrun.error))
        else:
            reads = {n for (p, n) in hrun.ex.reads_global if p == "self"}
            # children rendered through contract calls are dependencies too
            extra = sorted(reads - compared)
            ok = not extra
            # sources that serve as the table of a Field must hash by everything equality compares: == on fields
            # is always truthy, so fields_() separates two fields only through their hashes
            if ci.short in ("queries.Table",) and compared - reads:
                obs.append(Obligation(PROP, f"{hres[1].short}@{name}|eq/hash-covers", "eq/hash", hres[1].short, REFUTED,
                                      detail=f"the hash of a {ci.name} depends on every attribute equality compares",
                                      reason=f"equality compares {sorted(compared - reads)} but the hash ignores it: "
                                             "fields of unequal tables collapse in fields_()",
                                      witness={"family": "call", "oracle": "fields_dedup", "args": []}))
            elif ci.short in ("queries.Table",):
                obs.append(Obligation(PROP, f"{hres[1].short}@{name}|eq/hash-covers", "eq/hash", hres[1].short, PROVED,
                                      detail=f"the hash of a {ci.name} depends on every attribute equality compares"))
            # a slot that enters the hash through str()/repr() must have a textual form of its own: the default
            # object repr contains the address, so equal objects would hash differently
            ident = []
            for o in hrun.outcomes:
                hrun.ex.st = o.state
                for ef, _g, _l in flat_calls(o.state.effects):
                    if ef.method not in ("__str__", "__repr__") or ef.recv is None:
                        continue
                    tg = ef.recv_tags or frozenset()
                    for t in sorted(tg):
                        c2 = next((c for c in r.classes.values() if c.short == t), None)
                        if c2 is None:
                            continue
                        res2 = c2.resolve(ef.method) or (c2.resolve("__repr__") if ef.method == "__str__" else None)
                        if not res2 or res2[0] != "func":
                            ident.append(f"{recv_key(hrun.ex, ef, o.state)} ({t} defines no {ef.method})")
            if ident:
                ok = False
                extra = extra + sorted(set(ident))
            obs.append(Obligation(PROP, f"{hres[1].short}@{name}|eq/hash", "eq/hash", hres[1].short,
                                  PROVED if ok else REFUTED,
                                  detail=f"hash depends on {sorted(reads)}; equality compares {sorted(compared)}",
                                  reason="" if ok else f"the hash also depends on {extra}, which equality ignores: "
                                                       f"equal objects may hash differently",
                                  witness={"family": "call", "oracle": "eq_hash", "args": [name]}))
    return obs


def check_dedup(_item):
    """collect/dedup: Term.__hash__ of a Field renders it under DEFAULT_SQL_CONTEXT.copy(with_alias=True); fields_()
    keeps one field per hash key (== on terms is always truthy), so the key must determine (table, name)"""
    r = repo()
    ci = r.cls("terms.Field")
    hfi = ci.resolve("__hash__")[1]
    hrun = run_function(hfi, ci, inline_self=True)
    if hrun.error:
        return [Obligation(PROP, "terms.Field|collect/dedup", "collect/dedup", "terms.Term.__hash__", UNSUPPORTED,
                           reason=hrun.error)]
    ex = hrun.ex
    # does the hash input mention the table on every path where the field has a table?
    tbl_none = ex.smt.tag_in("self.table", frozenset({"NoneType"}), ex.tags.of_spec("Selectable|None"))
    ok, why = True, ""
    for o in hrun.outcomes:
        if o.status != "return":
            continue
        txt = repr(o.value) + " ".join(repr(e.recv) + repr(e.args) for e in o.state.effects)
        if re.search(r"hash!\(([^()]*,)?self\.name,self\.table(,[^()]*)?\)", txt) and not o.state.effects:
            continue        # the key is a tuple containing the name and the table (hashed by Table.__hash__, eq/hash)
        pcc = o.state.pc + [z3.Not(tbl_none)]
        if ex.smt.feasible(pcc):
            alias_truthy = ex.smt.truthy("self.table.alias", ex.tags.of_spec("name|None"))
            if ex.smt.feasible(pcc + [z3.Not(alias_truthy)]):
                ok = False
                why = ("for a field of an un-aliased table the hash key is the quoted column name only (the table is "
                       "printed only when it has an alias): t.x and u.x collapse into one element of fields_()")
    return [Obligation(PROP, "terms.Field|collect/dedup", "collect/dedup", hfi.short,
                       PROVED if ok else REFUTED,
                       detail="the hash key of a Field determines its (table, name)", reason=why,
                       witness={"family": "call", "oracle": "fields_dedup", "args": []})]


def check_nodes(item):
    cq = item
    r = repo()
    ci = r.classes[cq]
    rs, err = render_slots(ci)
    if rs is None:
        return []
    ns, err2, _run = method_slots(ci, "nodes_", "nodes_")
    name = ci.short
    if ns is None:
        return [Obligation(PROP, f"{name}|collect/nodes", "collect/nodes", f"{name}.nodes_", UNSUPPORTED, reason=err2)]
    obs = []
    norm = lambda s: s.replace("[*]", "").split(".")[1] if s.count(".") >= 1 else s
    rset = {norm(x) for x in rs}
    nset = {norm(x) for x in ns}
    # path-sensitive: on every path of nodes_() a present slot is traversed
    skipped = {}
    ex = _run.ex
    from .c16 import slot_tags
    tags_of = slot_tags(ci)
    for o in _run.outcomes:
        if o.status == "raise":
            continue
        ex.st = o.state
        cov = {}
        for ef, g, in_loop in flat_calls(o.state.effects):
            if ef.method != "nodes_":
                continue
            rk = recv_key(ex, ef, o.state)
            if rk.startswith("self."):
                cov.setdefault(norm(rk), []).append(z3.BoolVal(True) if (g is None or in_loop) else g)
        for slot in rset & nset:
            spec = ex.slot_spec(ci, slot) or ""
            present = []
            if not spec.startswith(("list", "set", "tuple")):
                # the slot matters on the kinds of value that get_sql renders as a child
                rendered = frozenset(t for t in tags_of.get(slot, ()) if t != "NoneType")
                if rendered:
                    present = [ex.smt.tag_in(f"self.{slot}", rendered)]
                elif "None" in spec:
                    present = [z3.Not(ex.smt.tag_in(f"self.{slot}", frozenset({"NoneType"})))]
            pcc = list(o.state.pc) + present
            c = z3.Or(cov[slot]) if slot in cov else z3.BoolVal(False)
            if ex.smt.feasible(pcc) and not ex.smt.implied(pcc, c):
                skipped[slot] = f"on the path {[str(x)[:120] for x in o.state.pc][-3:]} the slot is not traversed"
    for slot in sorted(rset):
        ok = slot in nset and slot not in skipped
        obs.append(Obligation(PROP, f"{name}|collect/nodes|{slot}", "collect/nodes", f"{name}.nodes_",
                              PROVED if ok else REFUTED,
                              detail=f"{ci.name}.nodes_() traverses the rendered slot {slot} on every path",
                              reason="" if ok else skipped.get(slot) or
                              f"{slot} is rendered by get_sql but not traversed by nodes_(): "
                              f"fields_()/tables_/find_() miss what it contains",
                              witness={"family": "call", "oracle": "nodes_cover", "args": [name, slot]}))
    return obs


def _tables_via_fields(r, o, parts):
    """{f.table for f in self.fields_() if isinstance(f.table, Table)}: every table reference hangs off a field, and
    fields_() keeps one field per (table, name) when collect/dedup holds"""
    import ast as _ast
    from ..values import MapPart, PreSeq
    calls = [e.method for e in o.state.effects if e.kind == "call"]
    if calls != ["fields_"] or not parts or len(parts) != 1 or not isinstance(parts[0], MapPart):
        return False
    mp = parts[0]
    if not (len(mp.seq) == 1 and isinstance(mp.seq[0], PreSeq) and mp.seq[0].path == "self.fields_()"):
        return False
    alts = [a for a in mp.alts if a[1]]
    if len(alts) != 1 or len(alts[0][1]) != 1:
        return False
    g, (item,) = alts[0]
    if not (repr(item).endswith(".table") and "Table" in str(g)):
        return False
    # table nodes are yielded only by nodes_ of Field classes
    field = r.cls("terms.Field")
    for ci in r.classes.values():
        fn = ci.methods.get("nodes_")
        if fn is None or not ci.qual.startswith("pypika_tortoise.terms"):
            continue
        mentions = any(isinstance(n, _ast.Attribute) and "table" in n.attr for n in _ast.walk(fn.node))
        if mentions and not any(k is field for k in ci.mro):
            return False
    return True


def check_collect(_item):
    """collect/tables, collect/fields: tables_ / fields_() are the set of ALL Table / Field nodes (find_ over
    nodes_), not a derivative of another, lossy collection; collect/find: find_ filters nodes_() by isinstance"""
    from ..values import Fn, MapPart, PreSeq
    r = repo()
    ci = r.cls("terms.Term")
    obs = []
    for name, want in (("tables_", "Table"), ("fields_", "Field")):
        fi = ci.methods[name]
        run = run_function(fi, ci, contract_self={"find_", "nodes_", "get_sql", "fields_"})
        ok, why = not run.error, run.error or ""
        for o in run.outcomes:
            if o.status != "return":
                ok, why = False, f"ends with {o.status}"
                continue
            calls = [e for e in o.state.effects if e.kind == "call"]
            finds = [e for e in calls if e.method == "find_"]
            others = [e.method for e in calls if e.method not in ("find_",)]
            v = o.value
            parts = o.state.heap[v.oid].parts if isinstance(v, Obj) and v.oid in o.state.heap else None
            good = len(finds) == 1 and not others and finds[0].args and isinstance(finds[0].args[0], Fn) and \
                getattr(finds[0].args[0].target, "name", "") == want and parts is not None and len(parts) == 1 and \
                isinstance(parts[0], PreSeq) and parts[0].path == "self.find_()" and \
                o.state.heap[v.oid].kind == "set"
            if not good and name == "tables_" and _tables_via_fields(r, o, parts):
                good = True     # equivalent form, given collect/dedup (one field per (table, name)) and that table
                #                 nodes only hang off Field nodes (checked syntactically)
            if not good:
                ok, why = False, (f"{name} is not set(self.find_({want})): calls {[e.method for e in calls]}, "
                                  f"result {parts!r}")
        obs.append(Obligation(PROP, f"terms.Term.{name}|collect/{name.strip('_')}", "collect/complete",
                              fi.short, PROVED if ok else REFUTED,
                              detail=f"{name} == set(self.find_({want})): every {want} node reachable through nodes_()",
                              reason=why, witness={"family": "call", "oracle": "tables_complete", "args": []}))
    fi = r.cls("terms.Node").methods["find_"]
    run = run_function(fi, r.cls("terms.Node"), contract_self={"nodes_"}, overrides={"type": "any"})
    ok, why = not run.error, run.error or ""
    for o in run.outcomes:
        if o.status != "return":
            continue
        calls = [e.method for e in o.state.effects if e.kind == "call"]
        v = o.value
        parts = o.state.heap[v.oid].parts if isinstance(v, Obj) and v.oid in o.state.heap else ()
        good = calls == ["nodes_"] and len(parts) == 1 and isinstance(parts[0], MapPart) and \
            len([a for a in parts[0].alts if a[1]]) == 1
        if good:
            g, items = [a for a in parts[0].alts if a[1]][0]
            good = items == (parts[0].elem,) and "isinstance!" in str(g)
        if not good:
            ok, why = False, f"find_ is not [n for n in self.nodes_() if isinstance(n, type)]: {parts!r}"
    obs.append(Obligation(PROP, "terms.Node.find_|collect/find", "collect/complete", fi.short,
                          PROVED if ok else REFUTED, detail="find_(T) == [n for n in nodes_() if isinstance(n, T)]",
                          reason=why, witness={"family": "call", "oracle": "tables_complete", "args": []}))
    return obs


def _dispatch(item):
    kind, arg = item
    if kind == "collect":
        return check_collect(arg)
    if kind == "eq":
        return check_eq(arg)
    if kind == "dedup":
        return check_dedup(arg)
    return check_nodes(arg)


def generate(tier="quick"):
    r = repo()
    items = []
    seen = set()
    for short in EQ_CLASSES:
        for ci in r.subclasses(r.cls(short)):
            sig = (ci.resolve("__eq__")[1].qual, (ci.resolve("__hash__") or (None, None))[1] and
                   ci.resolve("__hash__")[1].qual, ci.resolve("__str__") and ci.resolve("__str__")[1].qual,
                   ci.resolve("get_sql") and ci.resolve("get_sql")[1].qual)
            if sig in seen:
                continue
            seen.add(sig)
            items.append(("eq", ci.qual))
    items.append(("dedup", None))
    items.append(("collect", None))
    term = r.cls("terms.Term")
    done = set()
    for ci in sorted(r.subclasses(term), key=lambda c: c.qual):
        g, n = ci.resolve("get_sql"), ci.resolve("nodes_")
        sig = (g and g[1].qual, n and n[1].qual, tuple(sorted((k, v) for k, v in
               [(x, (ci.resolve(x) or (0, None))[1] and ci.resolve(x)[1].qual) for x in
                ("get_function_sql", "get_special_params_sql", "get_partition_sql", "get_filter_sql")])))
        if sig in done or r.cls("queries.Selectable") in ci.mro:
            continue
        done.add(sig)
        items.append(("nodes", ci.qual))
    obs = parallel(_dispatch, items)
    return obs, {"functions": sorted({f"{c}.__eq__" for k, c in items if k == "eq"}),
                 "closed_world": sorted({c for k, c in items if c}),
                 "assumptions": ["D9: Schema defines __eq__ without __hash__, hence is unhashable: no hash law",
                                 "attribute equalities (str ==, nested Schema ==) are equivalences (Schema by induction "
                                 "on the parent chain)",
                                 "set/dict membership agrees with linear == search given eq/hash (paper)"]}
