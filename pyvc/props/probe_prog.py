"""measures which special-method probes copy / deepcopy / pickle route through an instance __getattr__"""
import copy
import pickle

seen = set()


class P:
    def __init__(self):
        self.x = [1]

    def __getattr__(self, name):
        seen.add(name)
        raise AttributeError(name)


if __name__ == "__main__":
    p = P()
    copy.copy(p)
    copy.deepcopy(p)
    for proto in range(pickle.HIGHEST_PROTOCOL + 1):
        pickle.loads(pickle.dumps(p, proto))
    print(",".join(sorted(seen)))
