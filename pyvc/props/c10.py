"""C10 - a sub-query renders the same wherever it is embedded.

nonint/flags, embed/site   see positions.py and contracts/spec/positions.py: no position flag passed to a nested render
                           depends on the embedding position of the statement; embedding sites pass the prescribed flags.
nonint/text                in every statement builder's get_sql the incoming position flags (subquery, with_alias,
                           subcriterion, with_namespace) influence the text only through the enclosing brackets
                           (subquery) and the alias suffix (with_alias): after removing exactly these two outermost
                           forms, no path condition, no conditional in the result shape and no guard of a nested render
                           mentions a position flag."""
from __future__ import annotations

import z3

from ..driver import run_function
from ..front import repo
from ..oblig import PROVED, REFUTED, UNKNOWN, UNSUPPORTED, Obligation
from ..values import CallA, Dyn, IteA, JoinA, Lit, OpA, QuoteA, S
from .base import classes_using, parallel
from .positions import generate_for, shape_of
from .render import flat_calls

PROP = "C10"
POSITION = ("ctx.subquery", "ctx.with_alias", "ctx.subcriterion", "ctx.with_namespace")
STATEMENTS = ("queries.QueryBuilder", "queries._SetOperation", "queries.CreateQueryBuilder",
              "queries.DropQueryBuilder")


def _atoms(f, acc):
    if z3.is_const(f) and f.decl().kind() == z3.Z3_OP_UNINTERPRETED:
        acc.add(f.decl().name())
    for c in f.children():
        _atoms(c, acc)
    return acc


def pos_atoms(f):
    return sorted(a for a in _atoms(f, set()) if a in POSITION or any(a.startswith(p + "!") or a == "truthy!" + p
                                                                       for p in POSITION))


def deep_collapse(ex, atoms, pc, subs=()):
    """the shape under the assumptions pc with the position flags replaced by constants (subs): decided conditionals
    are replaced by the taken branch, at every depth"""
    out = []
    for a in atoms:
        if isinstance(a, IteA):
            c = z3.simplify(z3.substitute(a.c, *subs)) if subs else a.c
            if z3.is_true(c) or (not z3.is_false(c) and ex.smt.implied(pc, c)):
                out.extend(deep_collapse(ex, a.a, pc, subs))
            elif z3.is_false(c) or ex.smt.implied(pc, z3.Not(c)):
                out.extend(deep_collapse(ex, a.b, pc, subs))
            else:
                out.append(IteA(c, tuple(deep_collapse(ex, a.a, pc + [c], subs)),
                                tuple(deep_collapse(ex, a.b, pc + [z3.Not(c)], subs))))
        elif isinstance(a, JoinA):
            out.append(JoinA(tuple(deep_collapse(ex, a.sep, pc, subs)), a.seq,
                             tuple(deep_collapse(ex, a.body, pc, subs)), a.lid))
        elif isinstance(a, QuoteA):
            out.append(QuoteA(tuple(deep_collapse(ex, a.inner, pc, subs)), a.q))
        elif isinstance(a, OpA):
            out.append(OpA(a.op, tuple(S(tuple(deep_collapse(ex, x.atoms, pc, subs))) if isinstance(x, S) else x
                                       for x in a.args)))
        else:
            out.append(a)
    # merge adjacent literals
    merged = []
    for a in out:
        if isinstance(a, Lit) and merged and isinstance(merged[-1], Lit):
            merged[-1] = Lit(merged[-1].s + a.s)
        elif not (isinstance(a, Lit) and a.s == ""):
            merged.append(a)
    return merged


def text_under(ex, atoms, pc, flags):
    """repr of the shape when the position flags have the given truth values"""
    extra, subs = [], []
    for name, val in flags.items():
        at = ex.smt.atom(name)
        extra.append(at if val else z3.Not(at))
        subs.append((at, z3.BoolVal(val)))
    if not ex.smt.feasible(list(pc) + extra):
        return None
    return deep_collapse(ex, atoms, list(pc) + extra, tuple(subs))


def depends_on(ex, pc, f, flags=POSITION):
    """position flags whose value can change the truth of f on a state satisfying pc"""
    out = []
    for name in flags:
        at = ex.smt.atom(name)
        ft = z3.substitute(f, (at, z3.BoolVal(True)))
        ff = z3.substitute(f, (at, z3.BoolVal(False)))
        if ex.smt.feasible(list(pc) + [z3.Xor(ft, ff)]):
            out.append(name)
    return out


def compare_positions(ex, atoms, pc, bad):
    base = {"ctx.subquery": False, "ctx.with_alias": False, "ctx.subcriterion": False, "ctx.with_namespace": False}
    t0 = text_under(ex, atoms, pc, base)
    if t0 is None:
        return
    ok, why = related(ex, atoms, pc, base, "ctx.subquery", bracket_rel)
    if not ok:
        bad.append(f"embedded as a sub-query the text is not the stand-alone text in brackets: {why}")
    ok, why = related(ex, atoms, pc, base, "ctx.with_alias", alias_rel)
    if not ok:
        bad.append(f"with the alias requested the text is not the stand-alone text plus the alias: {why}")
    for flag in ("ctx.subcriterion", "ctx.with_namespace"):
        ok, why = related(ex, atoms, pc, base, flag, lambda a, b: repr(a) == repr(b))
        if not ok:
            bad.append(f"the text depends on the incoming {flag}: {why}")
    if pos_text(repr(t0)):
        bad.append(f"a conditional on a position flag remains in the text: {pos_text(repr(t0))}")


def _peel(t1):
    """t1 without a leading '(' and a trailing ')' (None when it has none)"""
    t = list(t1)
    if not t or not isinstance(t[0], Lit) or not t[0].s.startswith("(") or not isinstance(t[-1], Lit) or \
            not t[-1].s.endswith(")"):
        return None
    if len(t) == 1:
        return [Lit(t[0].s[1:-1])] if len(t[0].s) >= 2 else None
    t[0] = Lit(t[0].s[1:])
    t[-1] = Lit(t[-1].s[:-1])
    return [x for x in t if not (isinstance(x, Lit) and x.s == "")]


def _same_ite(x, y):
    return isinstance(x, IteA) and isinstance(y, IteA) and repr(x.c) == repr(y.c)


def bracket_rel(t1, t0) -> bool:
    """t1 is t0, or t0 enclosed in brackets, or both are one and the same case distinction over related texts"""
    if repr(t1) == repr(t0):
        return True
    p = _peel(t1)
    if p is not None and repr(p) == repr(t0):
        return True
    if len(t1) == 1 and len(t0) == 1 and _same_ite(t1[0], t0[0]):
        return bracket_rel(list(t1[0].a), list(t0[0].a)) and bracket_rel(list(t1[0].b), list(t0[0].b))
    return False


def alias_rel(t2, t0) -> bool:
    """t2 is t0 followed by the alias suffix (or t0 itself), possibly under the same case distinction"""
    r2, r0 = repr(t2), repr(t0)
    if r2 == r0:
        return True
    if len(t2) >= len(t0) and repr(t2[:len(t0)]) == r0:
        rest = repr(t2[len(t0):])
        return "self.alias" in rest and not pos_text(rest)
    if len(t2) == 1 and len(t0) == 1 and _same_ite(t2[0], t0[0]):
        return alias_rel(list(t2[0].a), list(t0[0].a)) and alias_rel(list(t2[0].b), list(t0[0].b))
    return False


def split_condition(t0):
    """a state condition of a top-level conditional of the text (to case-split on), or None"""
    for a in t0:
        if isinstance(a, IteA) and not pos_atoms(a.c):
            return a.c
    return None


def related(ex, atoms, pc, base, flag, rel, depth=0):
    """rel(text under flag=True, text under flag=False) on every case of the state conditions that shape the text"""
    t0 = text_under(ex, atoms, pc, base)
    t1 = text_under(ex, atoms, pc, dict(base, **{flag: True}))
    if t0 is None or t1 is None or not t0:
        return True, ""
    if rel(t1, t0):
        return True, ""
    c = split_condition(t0) if depth < 10 else None
    if c is None:
        return False, _first_diff(repr(t0), repr(t1))
    for cc in (c, z3.Not(c)):
        if ex.smt.feasible(list(pc) + [cc]):
            ok, why = related(ex, atoms, list(pc) + [cc], base, flag, rel, depth + 1)
            if not ok:
                return False, why
    return True, ""


def pos_text(txt):
    import re
    m = re.search(r"(truthy!)?ctx\.(subquery|with_alias|subcriterion|with_namespace)\b", txt)
    return m.group(0) if m else ""


def _first_diff(a, b):
    i = next((k for k in range(min(len(a), len(b))) if a[k] != b[k]), min(len(a), len(b)))
    return f"...{a[max(0, i - 40):i + 60]!r} vs ...{b[max(0, i - 40):i + 60]!r}"


def check_text(cq):
    r = repo()
    ci = r.classes[cq]
    fi = ci.resolve("get_sql")[1]
    run = run_function(fi, ci)
    name = f"{fi.short}@{ci.short}"
    if run.error:
        return [Obligation(PROP, f"{name}|nonint/text", "nonint/text", fi.short, UNSUPPORTED, reason=run.error)]
    ex = run.ex
    bad = []
    n = 0
    for o in run.outcomes:
        ex.st = o.state
        ex.frames = []
        for i, p in enumerate(o.state.pc):
            pa = depends_on(ex, list(o.state.pc[:i]), p) if pos_atoms(p) else []
            if pa:
                bad.append(f"a path of get_sql ({o.status}) exists only for some embedding positions: condition on {pa}")
        if o.status != "return":
            continue
        n += 1
        sh = shape_of(ex, o.value)
        pc0 = list(o.state.pc)
        if "ctx" in run.params:
            try:
                pc0.append(ex.truth(run.params["ctx"]))
            except Exception:
                pass
        compare_positions(ex, list(sh.atoms), pc0, bad)
        for ef, g, _l in flat_calls(o.state.effects):
            if g is not None and pos_atoms(g) and depends_on(ex, pc0, g):
                bad.append(f"the nested render {ef.method} of {ex.ident(ef.recv) if ef.recv is not None else '?'} is "
                           f"evaluated only for some embedding positions: guard on {pos_atoms(g)}")
    bad = sorted(set(bad))
    return [Obligation(PROP, f"{name}|nonint/text", "nonint/text", fi.short, PROVED if not bad and n else REFUTED,
                       detail="the embedding position influences the statement text only through the enclosing "
                              f"brackets and the alias suffix ({n} returning paths)",
                       reason="; ".join(bad[:3]) or ("" if n else "no returning path"),
                       witness={"family": "call", "oracle": "embedding_text", "args": [ci.short]})]


def generate(tier="quick"):
    obs, meta = generate_for(PROP, tier)
    r = repo()
    items = []
    for s in STATEMENTS:
        base = r.cls(s)
        for ci in r.classes.values():
            if base in ci.mro and ci.resolve("get_sql") and ci.resolve("get_sql")[0] == "func":
                items.append(ci.qual)
    obs = list(obs) + parallel(check_text, sorted(set(items)))
    # embed/convention: "its stand-alone rendering in the same dialect" - a statement passes the dialect conventions of
    # the incoming context (dialect, quote characters, as_keyword, ...) unchanged to every nested render, so that an
    # embedded sub-query sees what it would see stand-alone.  These are the ctx/dialect obligations of C08 for the
    # get_sql functions of the statement builders (a statement that turns on `as_keyword` for its own alias must not
    # pass it on to its sub-queries).
    from . import c08
    from .render import render_targets
    stm = set(items)
    tg = [x for x in render_targets(r) if x[0].endswith(".get_sql") and any(c in stm for c in x[2])]
    for ob in parallel(c08._dispatch, tg):
        if isinstance(ob, tuple):
            obs.append(ob)
        elif ob.kind == "ctx/dialect":
            ob.prop, ob.kind = PROP, "embed/convention"
            ob.key = ob.key.replace("|ctx/dialect|", "|embed/convention|")
            obs.append(ob)
    return obs, meta
