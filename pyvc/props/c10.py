"""C10 - a sub-query renders the same wherever it is embedded (obligations nonint/flags, embed/site;
see positions.py and contracts/spec/positions.py)."""
from .positions import generate_for

PROP = "C10"


def generate(tier="quick"):
    return generate_for(PROP, tier)
