"""C05 - inlined values are single literal tokens that decode to the original value.

lit/computes   for every wrapper class (generic, MySQL, SQLite) and every supported value kind, the text the real
               code computes is the specification term of that kind: strings  q ++ esc(v) ++ q  with
               esc = replace(q, qq) (and, under the MySQL dialect, replace('\\', '\\\\') afterwards); None -> null;
               bool -> true/false (SQLite wrapper: 1/0); numbers -> str(v); date/time/UUID/enum/dict/list -> the
               literal of their canonical text (the function's own contract, by induction).  Branch order is part of
               the obligation (bool is tested before the numeric fall-through, Term before everything).
lit/lemma      Lean 4: lexing  q ++ esc q s ++ q ++ rest  yields (s, rest)  (EscSql.lean), MySQL variant with
               backslash escapes and the two-pass = one-pass bridge (EscMysql.lean).
lit/json-term  the JSON term builds its own text; strings inside must be escaped (known finding).
Bridges to CPython (str.replace with a 1-character pattern = esc; str(int) is a numeral) are bounded cross-checks."""
from __future__ import annotations

import itertools
import os
import subprocess
import time

import z3

from ..driver import run_function
from ..front import repo
from ..oblig import PROVED, REFUTED, UNKNOWN, UNSUPPORTED, VERIF, Obligation
from ..values import CallA, Dyn, IteA, IteV, K, Lit, OpA, QuoteA, S, Sym
from .base import canon, classes_using, parallel
from .c11 import collapse
from .positions import shape_of
from .render import flat_calls

PROP = "C05"
KINDS = ["str", "NoneType", "bool", "int", "float", "Decimal", "date", "time", "datetime", "UUID", "dict", "list",
         "enums.DatePart", "enums.Dialects"]


def is_q(v):
    return isinstance(v, Sym) and v.path == "ctx.secondary_quote_char"


CALLS = {}


def is_val(atoms, path="self.value"):
    if len(atoms) == 1 and isinstance(atoms[0], CallA):
        ef = CALLS.get(atoms[0].cid)          # str(value) of a datum whose kind is only assumed afterwards
        return ef is not None and ef.method == "__str__" and isinstance(ef.recv, Sym) and ef.recv.path == path
    return len(atoms) == 1 and isinstance(atoms[0], Dyn) and isinstance(atoms[0].v, Sym) and atoms[0].v.path == path


def qq_shape(s):
    return isinstance(s, S) and len(s.atoms) == 2 and all(isinstance(a, Dyn) and is_q(a.v) for a in s.atoms)


def esc_of(atoms, mysql, source_pred):
    """atoms == [replace(replace(src, q, qq), '\\', '\\\\')]  (second replace only for MySQL)"""
    if len(atoms) != 1 or not isinstance(atoms[0], OpA) or atoms[0].op != "replace":
        return False
    a = atoms[0]
    if mysql:
        src, pat, rep = a.args
        if not (isinstance(pat, S) and pat.atoms == (Lit("\\"),) and isinstance(rep, S) and rep.atoms == (Lit("\\\\"),)):
            return False
        if not (isinstance(src, S) and len(src.atoms) == 1 and isinstance(src.atoms[0], OpA)
                and src.atoms[0].op == "replace"):
            return False
        a = src.atoms[0]
    src, pat, rep = a.args
    return is_q(pat) and qq_shape(rep) and isinstance(src, S) and source_pred(src.atoms)


def check_wrapper(item):
    fq, cq = item
    r = repo()
    fi, ci = r.funcs[fq], r.classes[cq]
    name = f"{fi.short}@{ci.short}"
    run = run_function(fi, ci, inline_self=True)
    if run.error:
        return [Obligation(PROP, f"{name}|lit/computes", "lit/computes", fi.short, UNSUPPORTED, reason=run.error)]
    ex = run.ex
    dial = r.cls("enums.Dialects").live
    my = ex.enum_eq(Sym("ctx.dialect", None), dial.MYSQL)
    sqlite_w = ci.short.endswith("SQLLiteValueWrapper")
    mysql_w = ci.short.endswith("MySQLValueWrapper")
    obs = []
    alltags = ex.tags.all()
    for kind in KINDS:
        for mysql in (False, True):
            assume = [ex.smt.tag_in("self.value", frozenset({kind}), alltags), my if mysql else z3.Not(my)]
            texts = []
            for o in run.outcomes:
                if o.status != "return":
                    continue
                pc = o.state.pc + assume
                if not ex.smt.feasible(pc):
                    continue
                ex.st = o.state
                ex.frames = []
                calls = {ef.cid: ef for ef, _g, _l in flat_calls(o.state.effects)}
                atoms = collapse(ex, shape_of(ex, o.value).atoms, pc)
                texts.append((atoms, calls, o))
            ok, why = True, ""
            if not texts:
                ok, why = False, "no returning path for this kind"
            for atoms, calls, o in texts:
                good = False
                CALLS.clear()
                CALLS.update(calls)
                if kind == "str":
                    esc_my = mysql or mysql_w
                    good = len(atoms) == 1 and isinstance(atoms[0], QuoteA) and is_q(atoms[0].q) and \
                        esc_of(list(atoms[0].inner), esc_my, is_val)
                elif kind == "NoneType":
                    good = atoms == [Lit("null")]
                elif kind == "bool":
                    if sqlite_w:
                        good = len(atoms) == 1 and isinstance(atoms[0], IteA) and atoms[0].a == (Lit("1"),) and \
                            atoms[0].b == (Lit("0"),)
                    else:
                        good = len(atoms) == 1 and isinstance(atoms[0], OpA) and atoms[0].op == "lower" and \
                            isinstance(atoms[0].args[0], S) and is_val(atoms[0].args[0].atoms)
                elif kind in ("int", "float", "Decimal"):
                    good = is_val(atoms)
                elif kind in ("date", "time", "datetime", "UUID", "dict", "list", "enums.Dialects"):
                    # the literal of the canonical text of the value: either the function's own contract on that
                    # text (recursion) or the quoted, escaped text spelled out
                    if len(atoms) == 1 and isinstance(atoms[0], CallA):
                        ef = calls.get(atoms[0].cid)
                        arg = ef.args[0] if ef and ef.args else None
                        src = {"date": ".isoformat()", "time": ".isoformat()", "datetime": ".isoformat()",
                               "UUID": "self.value", "dict": "json.dumps", "list": "json.dumps",
                               "enums.Dialects": "self.value.value"}[kind]
                        good = ef is not None and ef.method == "get_formatted_value" and src in repr(arg)
                    elif len(atoms) == 1 and isinstance(atoms[0], QuoteA) and is_q(atoms[0].q):
                        inner = list(atoms[0].inner)
                        if kind in ("dict", "list"):
                            good = esc_of(inner, True, lambda a: len(a) == 1 and isinstance(a[0], OpA) and
                                          a[0].op == "json.dumps")
                        else:
                            # iso text of a date/time has no quote or backslash: quoting it suffices
                            good = len(inner) == 1 and isinstance(inner[0], Dyn) and "isoformat()" in repr(inner[0])
                elif kind == "enums.DatePart":
                    good = len(atoms) == 1 and isinstance(atoms[0], Dyn) and "self.value.value" in repr(atoms[0])
                if not good:
                    ok = False
                    why = f"computes {S(tuple(atoms))!r}"
            label = f"{kind}{'/mysql-dialect' if mysql else ''}"
            obs.append(Obligation(PROP, f"{name}|lit/computes|{label}", "lit/computes", fi.short,
                                  PROVED if ok else REFUTED,
                                  detail=f"{ci.name} renders a {kind} value as the specification literal of that kind"
                                         f"{' under the MySQL dialect' if mysql else ''}", reason=why[:500],
                                  witness={"family": "call", "oracle": "literal_roundtrip", "args": [ci.short, kind]}))
    return obs


def check_json(_item):
    r = repo()
    fi = r.func("terms.JSON._get_str_sql")
    run = run_function(fi, r.cls("terms.JSON"))
    ok, why = not run.error, run.error or ""
    for o in run.outcomes:
        if o.status == "return":
            a = o.value.atoms if isinstance(o.value, S) else ()
            escaped = any(isinstance(x, QuoteA) and any(isinstance(i, OpA) and i.op == "replace" for i in x.inner)
                          for x in a)
            if not escaped:
                ok, why = False, f"a string inside a JSON term is emitted as {o.value!r}: quotes in it are not escaped"
    return [Obligation(PROP, "terms.JSON._get_str_sql|lit/json-term", "lit/json-term", fi.short,
                       PROVED if ok else REFUTED,
                       detail="strings inside a JSON term are escaped for the JSON text and for the SQL literal",
                       reason=why, witness={"family": "call", "oracle": "json_term", "args": []})]


def check_lean(_item):
    obs = []
    for fn, what in (("EscSql.lean", "lexBody q (esc q s ++ q :: rest) = some (s, rest)"),
                     ("EscMysql.lean", "lexMy q (escMy q s ++ q :: rest) = some (s, rest); rep1 bs (rep1 q s) = escMy q s"),
                     ("Frame.lean", "L-FRAME")):
        if fn == "Frame.lean":
            continue
        p = os.path.join(VERIF, "lemmas", fn)
        t0 = time.time()
        try:
            r_ = subprocess.run(["lean", p], capture_output=True, text=True, timeout=300)
            ok = r_.returncode == 0 and "error" not in (r_.stdout + r_.stderr) and "sorry" not in open(p).read()
            out = (r_.stdout + r_.stderr)[-400:]
        except Exception as e:
            ok, out = False, repr(e)
        obs.append(Obligation(PROP, f"lemmas/{fn}|lit/lemma", "lit/lemma", f"lemmas/{fn}", PROVED if ok else UNKNOWN,
                              detail=what, reason="" if ok else out, backend="lean4",
                              solver_s=round(time.time() - t0, 2)))
    # bounded bridge: python str.replace on a 1-char pattern is esc; two passes = escMy
    alphabet = ["'", "\\", "a", "\x00", "\U0001F600", '"']
    bad = 0
    n = 0
    for ln in range(0, 5):
        for tup in itertools.product(alphabet, repeat=ln):
            s_ = "".join(tup)
            n += 1
            esc = "".join(c * 2 if c == "'" else c for c in s_)
            escmy = "".join(c * 2 if c in ("'", "\\") else c for c in s_)
            if s_.replace("'", "''") != esc or s_.replace("'", "''").replace("\\", "\\\\") != escmy:
                bad += 1
    obs.append(Obligation(PROP, "cpython|lit/axiom-bridge", "lit/bridge-bounded", "str.replace",
                          PROVED if not bad else REFUTED,
                          detail="str.replace(q, qq) / two-pass MySQL escaping equal the Lean functions esc / escMy",
                          reason=f"{bad} mismatches", backend="cpython",
                          bounded=f"all {n} strings of length <= 4 over {alphabet!r}"))
    return obs


def check_column_default(_item):
    """lit/position: a column DEFAULT that is not already a term is stored as one constant wrapper (one literal
    token) - never as an array / tuple term"""
    from ..values import Obj
    r = repo()
    ci = r.cls("queries.Column")
    fi = ci.methods["__init__"]
    run = run_function(fi, ci, self_fresh=True)
    if run.error:
        return [Obligation(PROP, "queries.Column.__init__|lit/position|default", "lit/position", fi.short, UNSUPPORTED,
                           reason=run.error)]
    ex = run.ex
    vw = ex.tags.sub(r.cls("terms.ValueWrapper"))
    term = ex.tags.sub(r.cls("terms.Term"))
    dflt = run.params["default"]
    is_term = ex.smt.tag_in("default", term, ex.tags.all())
    is_none = ex.smt.tag_in("default", frozenset({"NoneType"}), ex.tags.all())
    ok, why, n = True, "", 0
    for o in run.outcomes:
        if o.status != "return":
            continue
        pc = o.state.pc + [z3.Not(is_term), z3.Not(is_none)]
        if not ex.smt.feasible(pc):
            continue
        n += 1
        ex.st = o.state
        ex.frames = []
        from .render import resolve
        v = resolve(ex, pc, ex.get_attr(run.self_obj, "default"))
        good = isinstance(v, Obj) and o.state.heap[v.oid].cls is not None and o.state.heap[v.oid].cls.short in vw
        if not good:
            ok, why = False, f"a non-term default is stored as {v!r} (not a constant wrapper)"
    return [Obligation(PROP, "queries.Column.__init__|lit/position|default", "lit/position", fi.short,
                       PROVED if ok and n else REFUTED,
                       detail="a column DEFAULT value is wrapped in ValueWrapper, so it renders as one literal",
                       reason=why, witness={"family": "call", "oracle": "column_default", "args": []})]


def _dispatch(item):
    if item[0] == "$column":
        return check_column_default(item)
    if item[0] == "$json":
        return check_json(item)
    if item[0] == "$lean":
        return check_lean(item)
    return check_wrapper(item)


def generate(tier="quick"):
    r = repo()
    items = [("$json", None), ("$lean", None), ("$column", None)]
    vw = r.cls("terms.ValueWrapper")
    for ci in r.subclasses(vw):
        items.append((ci.resolve("get_value_sql")[1].qual, ci.qual))
    obs = parallel(_dispatch, items)
    return obs, {"functions": sorted({i[0] for i in items if not i[0].startswith("$")}) +
                 ["pypika_tortoise.terms.ValueWrapper.get_formatted_value"],
                 "closed_world": [i[1] for i in items if i[1]],
                 "assumptions": ["D1: a leading '-' belongs to a numeric literal; true/false (1/0 for the SQLite "
                                 "wrapper) and null are keyword literals; non-finite floats are outside the property",
                                 "str(int/float/Decimal) is a numeric literal, isoformat()/str(UUID) contain no quote or "
                                 "backslash (axioms about the standard library)",
                                 "which wrapper class a value position uses only matters for booleans and MySQL time "
                                 "zones now that string escaping is keyed on ctx.dialect; not checked per position",
                                 "the reference lexers are the Lean functions lexBody / lexMy"]}
