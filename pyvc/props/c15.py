"""C15 - copy, deepcopy and pickle round-trips preserve and decouple objects.

CPython's three duplication mechanisms are axiomatised (rebuild through cls.__new__ and the instance __dict__),
PROVIDED every special-method probe that reaches an instance __getattr__ raises AttributeError and no class customises
the protocol.  Obligations:
getattr/probe      for each class defining __getattr__ and each probe name (measured on the running interpreters with a
                   recording __getattr__, united with the names listed in utils.ignore_copy) the real decorated
                   __getattr__ raises AttributeError (symbolic execution through the real ignore_copy wrapper).
getattr/decorated  every __getattr__ of the package is wrapped by ignore_copy (syntactic).
proto/plain        no class defines __reduce__/__reduce_ex__/__getstate__/__setstate__/__deepcopy__/__slots__.
copy/contract      every __copy__ returns a new object of the same class whose attributes are those of the receiver,
                   except that the re-copied containers are new containers with the same contents.
decouple           builder calls on a duplicate cannot affect the original: the frame obligations of C01, which
                   hold for receivers with arbitrary sharing."""
from __future__ import annotations

import ast
import copy
import pickle
import subprocess

from ..driver import run_function, tags
from ..front import repo
from ..oblig import PROVED, REFUTED, UNKNOWN, UNSUPPORTED, Obligation
from ..symex import Exec
from ..values import K, Obj
from .base import canon, classes_using, parallel

PROP = "C15"
def measured_probes():
    import os
    import sys
    prog = os.path.join(os.path.dirname(os.path.abspath(__file__)), "probe_prog.py")
    names = set()
    for py in (sys.executable, "/venv/bin/python"):
        r_ = subprocess.run([py, prog], capture_output=True, text=True, timeout=60)
        if r_.returncode == 0:
            names |= set(filter(None, r_.stdout.strip().split(",")))
    return names


def ignore_list(r):
    fi = r.func("utils.ignore_copy")
    for n in ast.walk(fi.node):
        if isinstance(n, ast.List) and all(isinstance(e, ast.Constant) for e in n.elts):
            return {e.value for e in n.elts}
    return set()


def check_probe(item):
    cq, probes = item
    r = repo()
    ci = r.classes[cq]
    fi = ci.resolve("__getattr__")[1]
    obs = []
    for name in sorted(probes):
        ex = Exec(r, tags(r))
        selfo = ex.alloc("inst", False, "self", cls=ci)
        ex.path_obj["self"] = selfo.oid
        try:
            outs = ex.explore(lambda: ex.call_function(fi, [selfo, K(name)], {}, selfo))
            ok = bool(outs) and all(o.status == "raise" and o.value and o.value[0] == "AttributeError" for o in outs)
            why = "" if ok else f"lookup of {name} yields {[(o.status, str(o.value)[:80]) for o in outs][:3]}"
        except Exception as e:
            ok, why = False, repr(e)
        obs.append(Obligation(PROP, f"{fi.short}@{ci.short}|getattr/probe|{name}", "getattr/probe", fi.short,
                              PROVED if ok else REFUTED,
                              detail=f"{ci.name}.__getattr__({name!r}) raises AttributeError",
                              reason=why, witness={"family": "call", "oracle": "roundtrip", "args": [ci.short]}))
    return obs


def check_copy(item):
    cq = item
    r = repo()
    ci = r.classes[cq]
    fi = ci.resolve("__copy__")[1]
    run = run_function(fi, ci)
    name = f"{fi.short}@{ci.short}"
    if run.error:
        return [Obligation(PROP, f"{name}|copy/contract", "copy/contract", fi.short, UNSUPPORTED, reason=run.error)]
    ex = run.ex
    ok, why, recopied = True, "", set()
    for o in run.outcomes:
        if o.status != "return" or not isinstance(o.value, Obj):
            ok, why = False, f"__copy__ ends with {o.status} {o.value!r}"
            continue
        h = o.state.heap[o.value.oid]
        if not (h.fresh and h.cls == ci):
            ok, why = False, "the result is not a new object of the receiver's class"
        if h.parent != run.self_obj.oid:
            ok, why = False, "the attributes of the receiver are not carried over (__dict__.update missing)"
        for k, v in h.attrs.items():
            good = False
            if isinstance(v, Obj):
                hv = o.state.heap[v.oid]
                good = hv.fresh and hv.kind in ("list", "set") and len(hv.parts) == 1 and \
                    getattr(hv.parts[0], "path", "") == f"self.{k}"
            if good:
                recopied.add(k)
            else:
                ok, why = False, f"attribute {k} of the copy is {v!r}: not a copy of the receiver's {k}"
        for w in o.state.writes:
            if not w.owned:
                ok, why = False, f"__copy__ writes to an existing object ({w.path})"
    return [Obligation(PROP, f"{name}|copy/contract", "copy/contract", fi.short, PROVED if ok else REFUTED,
                       detail=f"new {ci.name} with the receiver's attributes; re-copied containers: {sorted(recopied)}",
                       reason=why, witness={"family": "call", "oracle": "roundtrip", "args": [ci.short]})]


def check_static(_item):
    r = repo()
    obs = []
    for ci in r.classes.values():
        if "__getattr__" in ci.methods:
            fi = ci.methods["__getattr__"]
            ok = "ignore_copy" in fi.decorators
            obs.append(Obligation(PROP, f"{fi.short}|getattr/decorated", "getattr/decorated", fi.short,
                                  PROVED if ok else REFUTED, backend="syntactic",
                                  detail=f"{ci.name}.__getattr__ is wrapped by ignore_copy",
                                  reason="" if ok else "the dynamic attribute lookup answers special-method probes",
                                  witness={"family": "call", "oracle": "roundtrip", "args": [ci.short]}))
    bad = []
    for ci in r.classes.values():
        for n in ("__reduce__", "__reduce_ex__", "__getstate__", "__setstate__", "__deepcopy__", "__slots__",
                  "__getnewargs__", "__getnewargs_ex__"):
            if n in ci.methods or n in ci.attrs:
                bad.append(f"{ci.short}.{n}")
    obs.append(Obligation(PROP, "package|proto/plain", "proto/plain", "package", PROVED if not bad else REFUTED,
                          backend="syntactic", detail="no class customises the copy/pickle protocol",
                          reason=", ".join(bad), witness={"family": "call", "oracle": "roundtrip", "args": ["*"]}))
    return obs


def decouple(item):
    from . import c01
    out = []
    for ob in c01.check_one(item):
        ob.prop = PROP
        ob.kind = "decouple/" + ob.kind.split("/")[-1]
        ob.key = ob.key.replace("|frame/", "|decouple/")
        out.append(ob)
    return out


def _dispatch(item):
    k, arg = item
    return {"probe": check_probe, "copy": check_copy, "static": check_static, "decouple": decouple}[k](arg)


def generate(tier="quick"):
    from . import c01
    r = repo()
    probes = measured_probes() | ignore_list(r)
    items = [("static", None)]
    for ci in r.classes.values():
        res = ci.resolve("__getattr__")
        if res and res[0] == "func" and (ci.methods.get("__getattr__") or ci.name in ("Table", "QueryBuilder",
                                                                                          "_SetOperation", "Cte")):
            items.append(("probe", (ci.qual, tuple(sorted(probes)))))
        if "__copy__" in ci.methods:
            for c2 in classes_using(r, ci.methods["__copy__"]):
                items.append(("copy", c2.qual))
    items += [("decouple", t) for t in c01.targets(r)]
    obs = parallel(_dispatch, items)
    return obs, {"functions": sorted({f.qual for f in r.all_methods("__getattr__")} |
                                     {f.qual for f in r.all_methods("__copy__")}) + ["pypika_tortoise.utils.ignore_copy"],
                 "coverage_extra": {"probe_names": sorted(probes)},
                 "assumptions": ["T7 CPython copy/deepcopy/pickle rebuild plain instances through cls.__new__ and the "
                                 "instance __dict__ when the measured probes raise AttributeError; probe set measured "
                                 f"on the running interpreters: {sorted(probes)}",
                                 "user-supplied values stored in the tree are picklable/copyable (outside the closed "
                                 "world); same-render of the duplicate follows from C02 (render is a function of the "
                                 "reachable structure)"]}
