"""C14 - invalid constructions are rejected with library exceptions; valid ones never are.

raise/iff      for every guard of contracts/spec/raises.py: the function raises exception E  <=>  the specification
               condition holds in the pre-state.  Both directions, per outcome of the symbolic execution:
               a path ending in `raise E` implies the condition, a returning path implies its negation.
raise/unlisted a function under contract raises no package exception that the table does not list.
join/validate  JoinOn.validate raises JoinException exactly when the set of tables of the criterion's fields minus
               (FROM u joined items u the joined item) is non-empty (structure of the computed guard; set
               membership is by == / hash, C17).
join/reach     QueryBuilder.do_join calls validate with the statement's FROM and joins before appending the join.
setop/arity    _SetOperation.get_sql raises SetOperationException exactly at an operand whose select list length
               differs from the base query's."""
from __future__ import annotations

import ast
import re

import z3

from contracts.spec.raises import DELEGATED, OVERRIDES, RAISES

from .. import smt
from ..driver import run_function
from ..front import repo
from ..oblig import PROVED, REFUTED, UNKNOWN, UNSUPPORTED, Obligation
from ..values import PreSeq, Sym
from .base import canon, classes_using, parallel
from .render import eval_spec, flat_calls

PROP = "C14"
PACKAGE_EXC = {"QueryException", "JoinException", "SetOperationException", "CaseException", "RollupException",
               "FunctionException", "GroupingException", "DialectNotSupportedError"}


def spec_args(run):
    a = run.fi.node.args
    args = [run.self_obj]
    names = [p.arg for p in a.posonlyargs + a.args][1:]
    args += [run.params[n] for n in names]
    kwargs = {}
    if a.vararg:
        args.append(("*", PreSeq(a.vararg.arg, "any")))
    if a.kwarg:
        kwargs["**"] = Sym(a.kwarg.arg, None)
    return args, kwargs


def _msg_ok(o, frag):
    return frag is None or frag in str(o.value[1])


def check_guard(item):
    fshort, cq, entries = item
    r = repo()
    fi, ci = r.func(fshort), r.classes[cq]
    snap = {}

    def pre(ex, self_obj, params):
        snap["st"] = ex.st.snapshot()

    run = run_function(fi, ci, pre=pre, overrides=OVERRIDES.get(fshort))
    name = f"{fi.short}@{ci.short}"
    if run.error:
        return [Obligation(PROP, f"{name}|raise/iff", "raise/iff", fi.short, UNSUPPORTED, reason=run.error)]
    ex = run.ex
    args, kwargs = spec_args(run)
    obs = []
    conds = {}
    msgs = {}
    for exc, sname, inmod, msg in entries:
        msgs[exc] = msg
        try:
            v = eval_spec(ex, snap["st"], "raises", sname, args, in_module=inmod, kwargs=kwargs)
            saved = ex.st
            ex.st = snap["st"].snapshot()
            try:
                conds[exc] = ex.truth(v)
            finally:
                ex.st = saved
        except Exception as e:
            obs.append(Obligation(PROP, f"{name}|raise/iff|{exc}", "raise/iff", fi.short, UNSUPPORTED,
                                  reason=f"specification not evaluated: {e!r}"))
    raised = set()
    for exc, c in conds.items():
        bad = []
        n_raise = n_ret = 0
        for o in run.outcomes:
            pc = list(o.state.pc)
            if o.status == "raise" and o.value and str(o.value[0]) == exc and _msg_ok(o, msgs[exc]):
                n_raise += 1
                if not ex.smt.implied(pc, c):
                    bad.append(f"raises {exc} on a path where the specified condition can be false")
            elif o.status == "return":
                n_ret += 1
                if not ex.smt.implied(pc, z3.Not(c) if not isinstance(c, bool) else (not c)):
                    bad.append(f"returns normally on a path where the specified condition for {exc} can hold "
                               f"(path condition: {[str(x) for x in pc][-4:]})")
        if not n_raise:
            bad.append(f"no path raises {exc} (guard removed or unreachable)")
        obs.append(Obligation(PROP, f"{name}|raise/iff|{exc}", "raise/iff", fi.short, REFUTED if bad else PROVED,
                              detail=f"{fi.short} raises {exc} <=> spec {dict((e, s) for e, s, _m, _g in entries)[exc]}; "
                                     f"{n_raise} raising and {n_ret} returning paths",
                              reason="; ".join(sorted(set(bad))[:3]),
                              witness={"family": "call", "oracle": "guards", "args": [fi.short]}))
    listed = set(conds)
    other = {}
    for o in run.outcomes:
        if o.status == "raise" and o.value:
            e = str(o.value[0])
            if e in listed and not _msg_ok(o, msgs[e]) and (fi.short, e) in DELEGATED:
                continue
            if (e not in listed or not _msg_ok(o, msgs[e])) and (e in PACKAGE_EXC or e == "AttributeError") and (fi.short, e) not in DELEGATED:
                other[e] = other.get(e, 0) + 1
    obs.append(Obligation(PROP, f"{name}|raise/unlisted", "raise/unlisted", fi.short, REFUTED if other else PROVED,
                          detail=f"{fi.short} raises only the listed exceptions {sorted(listed)}",
                          reason=f"unlisted: {other}" if other else "",
                          witness={"family": "call", "oracle": "guards", "args": [fi.short]}))
    return obs


def check_returning(_):
    """returning/foreign: PostgreSQL's _validate_returning_term rejects a term as soon as ONE of its fields belongs
    to a table that is neither the INSERT/UPDATE target nor a source of the statement: the foreign-table exception is
    raised per field of term.fields_() (for all fields, not for some), guarded by that field's table not being the
    insert/update table and by the term's tables not all being sources (FROM and joins)"""
    r = repo()
    ci = r.cls("dialects.postgresql.PostgreSQLQueryBuilder")
    fi = ci.resolve("_validate_returning_term")[1]
    run = run_function(fi, ci, overrides={"term": "Term"})
    name = fi.short
    if run.error:
        return [Obligation(PROP, f"{name}|returning/foreign", "returning/foreign", fi.short, UNSUPPORTED, reason=run.error)]
    bad, n = [], 0
    for o in run.outcomes:
        if o.status == "raise":
            bad.append(f"raises {o.value and o.value[0]} outside the per-field test")
        sites = [e for e in o.state.effects if e.kind == "raise-site" and "other tables" in str(e.args[0][1])]
        per_field = [e for e in sites if e.site == "loop" and "term.fields_()" in repr(e.seq)]
        if not per_field:
            bad.append("the foreign-table exception is not raised per field of term.fields_()")
            continue
        for e in per_field:
            n += 1
            g = str(e.guard)
            elem = repr(e.elem)
            for need, what in ((f"eq!self._insert_table|{elem[1:]}.table", "the field's table against the INSERT target"),
                               (f"eq!self._update_table|{elem[1:]}.table", "the field's table against the UPDATE target"),
                               ("setdiff", "the term's tables minus the statement's sources")):
                if need not in g:
                    bad.append(f"the guard does not test {what}")
            for src in ("_from", "_joins"):
                if src not in " ".join(repr(h.parts) for h in o.state.heap.values() if h.kind == "set"):
                    bad.append(f"the sources do not include self.{src}")
    return [Obligation(PROP, f"{name}|returning/foreign", "returning/foreign", fi.short,
                       REFUTED if bad or not n else PROVED,
                       detail=f"{n} per-field raise site(s) of the foreign-table exception",
                       reason="; ".join(sorted(set(bad))[:3]) or ("" if n else "no raise site"),
                       witness={"family": "call", "oracle": "returning_foreign", "args": []})]


def check_coherence(cq):
    """join/hash-coherence: the availability test of JoinOn.validate is a set difference, i.e. decided by __hash__ and
    __eq__ of the sources: equal sources hash equally (the eq/hash and eq/shape obligations of C17 for that class)"""
    from . import c17
    out = []
    for ob in c17.check_eq(cq):
        if ob.kind in ("eq/hash", "eq/shape", "eq/refl"):
            ob.prop = PROP
            ob.key = ob.key.replace("|eq/", "|join/hash-coherence/")
            ob.kind = "join/hash-coherence"
            out.append(ob)
    return out


def _dispatch(item):
    return {"guard": check_guard, "validate": check_validate, "setop": check_setop,
            "reach": check_reach, "coherence": check_coherence, "returning": check_returning}[item[0]](item[1])


def check_validate(_):
    r = repo()
    fi = r.func("queries.JoinOn.validate")
    ci = fi.cls
    run = run_function(fi, ci, overrides={"_from": "list[Selectable]", "_joins": "list[Join]"})
    name = fi.short
    if run.error:
        return [Obligation(PROP, f"{name}|join/validate", "join/validate", fi.short, UNSUPPORTED, reason=run.error)]
    ex = run.ex
    bad = []
    n_raise = 0
    descr = ""
    for o in run.outcomes:
        if o.status == "raise":
            n_raise += 1
            if not (o.value and str(o.value[0]) == "JoinException"):
                bad.append(f"raises {o.value and o.value[0]}")
        by_path = {h.path: h for h in o.state.heap.values()}
        diffs = [h for h in o.state.heap.values() if h.kind == "set" and h.path.startswith("setdiff")]
        txt = " ".join(str(x) for x in o.state.pc)
        if len(diffs) != 1 or "len!setdiff" not in txt:
            bad.append("the guard is not the emptiness of one set difference")
            continue
        m = re.match(r"setdiff[^(]*[(](.*),(.*)[)]", diffs[0].parts[0].path)
        a, b = (by_path.get(m.group(1)), by_path.get(m.group(2))) if m else (None, None)
        if a is None or b is None:
            bad.append("operands of the set difference not found")
            continue
        sa, sb = repr(a.parts), sorted(repr(p) for p in b.parts)
        descr = f"{sa}  minus  {sb}"
        if not (len(a.parts) == 1 and "Pre(self.criterion.fields_()" in sa and sa.count(".table") == 1
                and getattr(a.parts[0], "total", False)):
            bad.append(f"left operand is not the set of tables of the criterion's fields: {sa}")
        want = [lambda s_: s_.startswith("Pre(_from"), lambda s_: "Pre(_joins" in s_ and ".item" in s_,
                lambda s_: s_ == "E[$self.item]"]
        if not (len(sb) == 3 and all(any(w(x) for x in sb) for w in want)):
            bad.append(f"right operand is not FROM u joined items u the joined item: {sb}")
    if not n_raise:
        bad.append("no path raises JoinException")
    alltxt = descr
    return [Obligation(PROP, f"{name}|join/validate", "join/validate", fi.short, REFUTED if bad else PROVED,
                       detail="raises JoinException <=> tables(criterion.fields_()) - (FROM u join items u item) "
                              f"is non-empty; guard: {alltxt[:300]}",
                       reason="; ".join(bad), witness={"family": "call", "oracle": "join_validation", "args": []})]


def check_reach(cq):
    r = repo()
    ci = r.classes[cq]
    fi = ci.resolve("do_join")[1]
    run = run_function(fi, ci)
    name = f"{fi.short}@{ci.short}"
    if run.error:
        return [Obligation(PROP, f"{name}|join/reach", "join/reach", fi.short, UNSUPPORTED, reason=run.error)]
    bad = []
    for o in run.outcomes:
        if o.status != "return":
            continue
        calls = [ef for ef, _g, _l in flat_calls(o.state.effects) if ef.method == "validate"]
        if not calls:
            bad.append("a returning path appends the join without validate()")
            continue
        c = calls[0]
        run.ex.st = o.state
        a = [run.ex.ident(x) for x in c.args]
        first = c.args[0]
        parts = repr(o.state.heap[first.oid].parts) if hasattr(first, "oid") else a[0]
        if not (len(a) >= 2 and all(k in parts for k in ("self._from", "self._update_table", "self._with"))
                and a[1] == "self._joins"):
            bad.append(f"validate called with {parts}, {a[1:]}")
    return [Obligation(PROP, f"{name}|join/reach", "join/reach", fi.short, REFUTED if bad else PROVED,
                       detail="do_join validates the join against FROM + UPDATE table + CTEs and the joins on every returning path",
                       reason="; ".join(sorted(set(bad))[:3]),
                       witness={"family": "call", "oracle": "join_validation", "args": []})]


def check_setop(_):
    r = repo()
    fi = r.func("queries._SetOperation.get_sql")
    ci = fi.cls
    run = run_function(fi, ci)
    name = fi.short
    if run.error:
        return [Obligation(PROP, f"{name}|setop/arity", "setop/arity", fi.short, UNSUPPORTED, reason=run.error)]
    bad = []
    n_raise = 0
    sites = set()
    for o in run.outcomes:
        for e in o.state.effects:
            if e.kind == "raise-site":
                sites.add(f"{e.args[0][0]} under {e.guard}")
        if o.status == "raise":
            n_raise += 1
            txt = " ".join(str(x) for x in o.state.pc[-3:])
            sites.add(f"{o.value[0]} under {txt}")
    alltxt = " ".join(sites)
    if "SetOperationException" not in alltxt:
        bad.append("no path raises SetOperationException")
    if not ("base_query._selects" in alltxt and "_set_operation" in alltxt and "_selects" in alltxt.split("base_query._selects", 1)[-1] + alltxt.split("base_query._selects", 1)[0]):
        bad.append("the guard does not compare the select list lengths of the base query and the operand")
    return [Obligation(PROP, f"{name}|setop/arity", "setop/arity", fi.short, REFUTED if bad else PROVED,
                       detail=f"raise sites: {sorted(sites)[:4]}", reason="; ".join(bad),
                       witness={"family": "call", "oracle": "setop_arity", "args": []})]


def generate(tier="quick"):
    r = repo()
    by = {}
    for ent in RAISES:
        fshort, exc, sname, inmod = ent[:4]
        by.setdefault(fshort, []).append((exc, sname, inmod, ent[4] if len(ent) > 4 else None))
    items = []
    funcs = set()
    for fshort, entries in by.items():
        fi = r.func(fshort)
        funcs.add(fi.qual)
        for ci in classes_using(r, fi):
            items.append(("guard", (fshort, ci.qual, entries)))
    items.append(("validate", None))
    items.append(("setop", None))
    for ci in classes_using(r, r.func("queries.QueryBuilder.do_join")):
        items.append(("reach", ci.qual))
    items.append(("returning", None))
    for short in ("queries.Table", "queries.AliasedQuery", "queries.QueryBuilder"):
        items.append(("coherence", r.cls(short).qual))
    obs = parallel(_dispatch, items)
    funcs |= {"pypika_tortoise.queries.JoinOn.validate", "pypika_tortoise.queries._SetOperation.get_sql",
              "pypika_tortoise.queries.QueryBuilder.do_join"}
    return obs, {"functions": sorted(funcs),
                 "assumptions": ["set membership / set difference over tables is by == and hash (coherence: C17)",
                                 "the conditions of contracts/spec/raises.py are the specification (transcribed "
                                 "from the property statement, slot shapes from the code)",
                                 "PostgreSQL RETURNING from a foreign table (_validate_returning_term) is covered "
                                 "only through raise/unlisted, not by an iff"]}
