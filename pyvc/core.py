"""Symbolic executor, part 1: exploration of paths by decision replay, heap, attribute lookup, symbolic data."""
from __future__ import annotations

import re
import time

import z3

from contracts.invariants import OPTIONAL_ATTRS, SLOTS

from .front import ClassInfo, FuncInfo, Repo
from .smt import FALSE, TRUE, Smt, conj
from .state import Effect, Frame, MergeAbort, Outcome, PathEnd, Restart, State, Unsupported, Write
from .values import (B, CallA, Dyn, Elems, Fn, Gen, HObj, I, IteV, K, Lit, MapPart, Obj, PreSeq, S, Sym, Tags, Tu, V)

# methods that are called through their family contract when the receiver is not `self`/exact
CONTRACT_METHODS = {
    "get_sql": dict(pure=True, ret="str"),
    "replace_table": dict(pure=True, ret="same"),
    "nodes_": dict(pure=True, ret="seq:Node"),
    "fields_": dict(pure=True, ret="set:Field"),
    "find_": dict(pure=True, ret="seq:Node"),
    "validate": dict(pure=True, ret="none", raises="JoinException"),
    "get_table_name": dict(pure=True, ret="name"),
    "isoformat": dict(pure=True, ret="strdata"),
    "__str__": dict(pure=True, ret="str"),
    "__hash__": dict(pure=True, ret="int"),
}
CONTRACT_PROPS = {"is_aggregate": "any", "tables_": "set:Table"}


def parse_spec(spec: str):
    spec = spec.strip()
    m = re.match(r"^(list|set|tuple)\[(.*)\]$", spec)
    if m and _balanced_top(spec):
        kind, inner = m.group(1), m.group(2)
        parts = _split_top(inner)
        if kind == "tuple":
            if parts[-1] == "...":
                return ("tuplevar", parts[0])
            return ("tuple", parts)
        return (kind, inner)
    return ("scalar", spec)


def _balanced_top(spec):
    # 'list[a]|None' must not be parsed as a list
    depth = 0
    for i, ch in enumerate(spec):
        if ch == "[":
            depth += 1
        elif ch == "]":
            depth -= 1
            if depth == 0 and i != len(spec) - 1:
                return False
    return True


def _split_top(s):
    out, depth, cur = [], 0, ""
    for ch in s:
        if ch == "[":
            depth += 1
        elif ch == "]":
            depth -= 1
        if ch == "," and depth == 0:
            out.append(cur.strip())
            cur = ""
        else:
            cur += ch
    out.append(cur.strip())
    return out


def _union_parts(spec):
    out, depth, cur = [], 0, ""
    for ch in spec:
        if ch == "[":
            depth += 1
        elif ch == "]":
            depth -= 1
        if ch == "|" and depth == 0:
            out.append(cur.strip())
            cur = ""
        else:
            cur += ch
    out.append(cur.strip())
    return out


class Decisions:
    def __init__(self, prefix):
        self.prefix = list(prefix)
        self.pos = 0
        self.made = []
        self.open = []      # indices at which the alternative is still unexplored

    def next(self):
        if self.pos < len(self.prefix):
            d = self.prefix[self.pos]
        else:
            d = True
            self.open.append(self.pos)
        self.pos += 1
        self.made.append(d)
        return d


class ExecCore:
    MAX_PATHS = 4000
    MAX_DEPTH = 24

    def __init__(self, repo: Repo, tags: Tags | None = None):
        self.repo = repo
        self.tags = tags or Tags(repo)
        self.smt = Smt(self.tags)
        self.st = State()
        self.dec: Decisions | None = None
        self.frames: list[Frame] = []
        self.inline_stack: list[FuncInfo] = []
        self.idp = "r"
        self.idc = 0
        self.memo: dict = {}
        self.memo_hits = 0
        self.symspec: dict[str, str] = {}
        self.path_obj: dict[str, int] = {}
        self.calls: dict[int, Effect] = {}
        self.merge_depth = 0
        self.in_loop = 0
        self.slot_cache: dict = {}
        self.unknown_slots: set = set()
        self.const_cache: dict = {}
        self.no_contract: set = set()
        self.merge_marks: list = []
        self.nomerge_calls: set = set()
        self._assigned_spec: dict = {}
        self.deadline = None
        self.notes_global: set = set()
        self.reads_global: set = set()
        self._assigned_cache: dict = {}
        self.nomerge_ifs: set = set()
        self.contract_self_methods: set = set()
        self.cur_line = 0

    # ------------------------------------------------------------------ ids
    # Identifiers are deterministic functions of the execution history (exploration nesting + decisions taken),
    # so that replays of a shared path prefix allocate identical ids; this makes z3 query caching and the
    # memoisation of nested explorations possible.
    def new_id(self) -> str:
        self.idc += 1
        return f"{self.idp}.{self.idc}"

    new_oid = new_cid = new_lid = new_id

    def fresh_name(self, base):
        return f"{base}#{self.new_id()}"

    # ------------------------------------------------------------------ exploration
    def explore(self, run, start: State | None = None, limit=None, keep_merge=False) -> list[Outcome]:
        """enumerate all feasible paths of `run()` (a closure executing on self.st) by decision replay"""
        eid = self.new_id()
        saved_ids = (self.idp, self.idc)
        if start is not None and eid in self.memo:
            self.memo_hits += 1
            return [self._clone_outcome(o) for o in self.memo[eid]]
        outcomes = []
        work = [()]
        saved_st, saved_dec = self.st, self.dec
        base = start if start is not None else self.st
        saved_frames = list(self.frames)
        saved_inline = list(self.inline_stack)
        saved_md = self.merge_depth
        top = saved_frames[-1] if saved_frames else None
        top_locals = dict(top.locals) if top is not None else None
        n = 0
        outermost = self.dec is None
        try:
            while work:
                prefix = work.pop()
                n += 1
                if self.deadline is not None and time.time() > self.deadline:
                    raise Unsupported("time budget exhausted")
                if n > (limit or self.MAX_PATHS):
                    raise Unsupported("path explosion")
                self.st = base.snapshot()
                self.dec = Decisions(prefix)
                self.idp, self.idc = eid + "/", 0
                self.frames = list(saved_frames)
                self.inline_stack = list(saved_inline)
                if top is not None:
                    top.locals = dict(top_locals)
                status, value, exc = "normal", None, None
                try:
                    value = run()
                except PathEnd as pe:
                    status, value = pe.kind, pe.value
                except Restart as rs:
                    if not outermost:
                        raise
                    self.nomerge_ifs |= set(rs.keys)
                    self.nomerge_calls |= set(getattr(rs, "calls", ()))
                    self.memo.clear()
                    outcomes, work, n = [], [()], 0
                    continue
                d = self.dec
                for i in d.open:
                    work.append(tuple(d.made[:i]) + (False,))
                # decisions are taken lazily (relevance pre-check), so confirm the path is feasible as a whole
                if status != "infeasible" and d.made and not self.smt.feasible(self.st.pc):
                    status = "infeasible"
                if status != "infeasible":
                    outcomes.append(Outcome(status, value, self.st, tuple(d.made),
                                            locals=dict(top.locals) if top is not None else {}))
            if start is not None:
                self.memo[eid] = [self._clone_outcome(o) for o in outcomes]
        finally:
            self.idp, self.idc = saved_ids
            self.merge_depth = saved_md
            if top is not None:
                top.locals = top_locals
            self.st, self.dec = saved_st, saved_dec
            self.frames = saved_frames
            self.inline_stack = saved_inline
        return outcomes

    def _clone_outcome(self, o):
        import dataclasses
        st = o.state.snapshot()
        st.effects = [dataclasses.replace(e) for e in st.effects]
        st.writes = [dataclasses.replace(w) for w in st.writes]
        return Outcome(o.status, o.value, st, o.decisions, o.exc, dict(o.locals), None)

    def decide(self, f) -> bool:
        """branch on z3 formula f under the current path condition"""
        if self.deadline is not None and time.time() > self.deadline:
            raise Unsupported("time budget exhausted")
        f = z3.simplify(f) if not isinstance(f, bool) else z3.BoolVal(f)
        if z3.is_true(f):
            return True
        if z3.is_false(f):
            return False
        # syntactic tag bookkeeping (narrowing of the possible dynamic kinds of a datum)
        tf, neg = self.smt.tagforms.get(f.get_id()), False
        if tf is None and z3.is_not(f):
            tf, neg = self.smt.tagforms.get(f.arg(0).get_id()), True
        if tf is not None:
            path, names, allowed = tf
            cur = self.st.tagset.get(path, allowed)
            if cur is not None:
                if cur <= names:
                    return not neg
                if not (cur & names):
                    return neg
        fid = f.get_id()
        for p in self.st.pc:
            if p.get_id() == fid:
                return True
            if z3.is_not(p) and p.arg(0).get_id() == fid:
                return False
        if self.smt.related(self.st.pc, f):
            if self.smt.implied(self.st.pc, f):
                return True
            if self.smt.implied(self.st.pc, z3.Not(f)):
                return False
        if self.dec is None:
            raise Unsupported("decision outside exploration")
        d = self.dec.next()
        self.idp += "T" if d else "F"
        self.idc = 0
        self.st.pc.append(f if d else z3.Not(f))
        if tf is not None:
            path, names, allowed = tf
            cur = self.st.tagset.get(path, allowed)
            if cur is None:
                cur = self.tags.all()
            self.st.tagset[path] = (cur & names) if (d != neg) else (cur - names)
        return d

    def push_cond(self, state, cond):
        """append a branch condition to a state's path condition, with the tag bookkeeping of decide()"""
        state.pc.append(cond)
        tf, neg = self.smt.tagforms.get(cond.get_id()), False
        if tf is None and z3.is_not(cond):
            tf, neg = self.smt.tagforms.get(cond.arg(0).get_id()), True
        if tf is not None:
            path, names, allowed = tf
            cur = state.tagset.get(path, allowed)
            if cur is None:
                cur = self.tags.all()
            state.tagset[path] = (cur - names) if neg else (cur & names)

    def feasible_tags(self, path, allowed):
        cur = self.st.tagset.get(path)
        if cur is None:
            return allowed
        return cur if allowed is None else (cur & allowed)

    def assume(self, f):
        self.st.pc.append(f)
        if not self.smt.feasible(self.st.pc):
            raise PathEnd("infeasible")

    # ------------------------------------------------------------------ heap
    def alloc(self, kind, fresh, path, cls=None, tags=None, parts=(), spec="", parent=None) -> Obj:
        oid = self.new_oid()
        self.st.heap[oid] = HObj(oid, kind, fresh, path, cls, tags, parts=tuple(parts), spec=spec, parent=parent)
        return Obj(oid)

    def hobj(self, o: Obj) -> HObj:
        return self.st.heap[o.oid]

    def new_list(self, items, kind="list") -> Obj:
        return self.alloc(kind, True, self.fresh_name(kind), parts=(Elems(tuple(items)),) if items else ())

    def new_list_parts(self, parts, kind="list") -> Obj:
        return self.alloc(kind, True, self.fresh_name(kind), parts=tuple(parts))

    def cls_of(self, v: V):
        """exact ClassInfo of an instance value when known"""
        if isinstance(v, Obj):
            h = self.hobj(v)
            if h.cls is not None:
                return h.cls
            if h.tags and len(h.tags) == 1:
                (t,) = h.tags
                return self.repo.classes.get("pypika_tortoise." + t)
        if isinstance(v, K) and type(v.v) in self.repo.by_live:
            return self.repo.by_live[type(v.v)]
        return None

    # ------------------------------------------------------------------ symbolic data from type specs
    def make_sym(self, path: str, spec: str) -> V:
        kind = parse_spec(spec)
        if kind[0] == "scalar":
            parts = _union_parts(spec)
            if parts == ["bool"]:
                return B(self.smt.atom(path))
            if parts == ["int"]:
                return I(self.smt.int(path))
            if parts == ["querycls"]:
                return Fn("class", self.repo.cls("queries.Query"))
            label = ""
            for lab in ("name", "sql", "value", "data"):
                if lab in parts:
                    label = "value" if lab == "data" else lab
            tagset = set()
            cont = None
            for p in parts:
                if p == "sql":
                    tagset |= {"str"}
                elif p == "value":
                    tagset |= set(self.tags.all())
                elif p == "data":
                    from .values import EXT_KINDS
                    tagset |= set(EXT_KINDS)
                elif parse_spec(p)[0] != "scalar":
                    cont = p
                    tagset |= {parse_spec(p)[0].replace("tuplevar", "tuple")}
                else:
                    tagset |= self.tags.of_spec(p)
            self.symspec[path] = spec
            tags = frozenset(tagset)
            self.smt.tag(path, tags)
            return Sym(path, tags, label)
        if kind[0] in ("list", "set"):
            self.symspec[path] = spec
            o = self.alloc(kind[0], False, path, parts=(PreSeq(path, kind[1]),), spec=kind[1])
            self.path_obj[path] = o.oid
            return o
        if kind[0] == "tuple":
            return Tu((Elems(tuple(self.make_sym(f"{path}.{i}", s) for i, s in enumerate(kind[1]))),))
        if kind[0] == "tuplevar":
            return Tu((PreSeq(path, kind[1]),))
        raise Unsupported(f"spec {spec}")

    def as_obj(self, v: V) -> Obj:
        """materialise the heap object behind a symbolic reference (memoised by path)"""
        if isinstance(v, Obj):
            return v
        if isinstance(v, Sym):
            if v.path in self.path_obj and self.path_obj[v.path] in self.st.heap:
                return Obj(self.path_obj[v.path])
            spec = self.symspec.get(v.path, "any")
            tags = v.tags
            if tags is not None:
                tags = frozenset(t for t in tags if t != "NoneType")
            cont = [p for p in _union_parts(spec) if parse_spec(p)[0] in ("list", "set")]
            if cont and tags and tags <= {"list", "set"}:
                k = parse_spec(cont[0])
                o = self.alloc(k[0], False, v.path, parts=(PreSeq(v.path, k[1]),), spec=k[1])
            else:
                o = self.alloc("inst", False, v.path, tags=tags)
            # objects created lazily belong to the pre-state: register in every snapshot via path_obj
            self.path_obj[v.path] = o.oid
            return o
        raise Unsupported(f"not an object: {v!r}")

    def slot_spec(self, ci: ClassInfo, attr: str):
        key = (ci.qual, attr)
        if key in self.slot_cache:
            return self.slot_cache[key]
        r = None
        for c in ci.mro:
            t = SLOTS.get(c.short)
            if t and attr in t:
                r = t[attr]
                break
        self.slot_cache[key] = r
        return r

    def possible_classes(self, h: HObj) -> list[ClassInfo]:
        if h.cls is not None:
            return [h.cls]
        out = []
        for t in sorted(h.tags or ()):
            ci = self.repo.classes.get("pypika_tortoise." + t)
            if ci is not None:
                out.append(ci)
        return out

    # ------------------------------------------------------------------ attribute access
    def lookup_kind(self, ci: ClassInfo, name: str):
        """what `obj.name` yields for an instance of ci whose __dict__ lacks name:
        ('slot', spec) | ('func', FuncInfo) | ('cattr', ClassInfo, expr) | ('hook', FuncInfo) | ('missing',)"""
        spec = self.slot_spec(ci, name)
        if spec is not None and name not in OPTIONAL_ATTRS.get(ci.short, ()):
            return ("slot", spec)
        r = ci.resolve(name)
        if r is not None:
            if r[0] == "func":
                return ("func", r[1])
            return ("cattr", r[1], name)
        if spec is not None:
            return ("optslot", spec)
        asg = self.assigned_attrs(ci).get(name)
        if asg == "init":
            self.unknown_slots.add((ci.short, name))
            # an attribute the slot table does not know: its container kind is read off the constructor
            return ("slot", self._assigned_spec.get((ci.qual, name), "any"))
        if asg == "lazy":
            self.unknown_slots.add((ci.short, name))
            return ("optslot", "any")
        hook = ci.resolve("__getattr__")
        if hook is not None and not (name.startswith("__") and name.endswith("__")):
            return ("hook", hook[1])
        if hook is not None:
            return ("hook", hook[1])
        return ("missing",)

    def get_attr(self, v: V, name: str, default=None, probe=False):
        """value of v.name; default (a V) is used when the attribute is missing (getattr/hasattr semantics);
        probe=True returns None instead of raising"""
        if isinstance(v, IteV):
            return self.get_attr(v.a if self.decide(v.c) else v.b, name, default, probe)
        if isinstance(v, K):
            return self.get_attr_concrete(v, name, default, probe)
        if isinstance(v, Fn):
            return self.get_attr_fn(v, name, default, probe)
        if isinstance(v, Sym):
            if v.tags is not None and "NoneType" in v.tags:
                isnone = self.smt.tag_in(v.path, frozenset({"NoneType"}), v.tags)
                if self.decide(isnone):
                    return self.get_attr_concrete(K(None), name, default, probe)
            ft = v.tags
            if ft is None or len(ft) > 1:
                ft = self.feasible_tags(v.path, v.tags)
            import enum as _enum
            is_data = lambda t: ("pypika_tortoise." + t) not in self.repo.classes or issubclass(
                self.repo.classes["pypika_tortoise." + t].live, _enum.Enum)
            if ft and all(is_data(t) for t in ft):
                # user data (str, enum member, value ...): opaque attribute
                if name in ("value", "name", "start", "stop"):
                    return Sym(v.path + "." + name, None, v.label)
                return Fn("datamethod", name, Sym(v.path, ft, v.label))
            if ft and any(is_data(t) for t in ft):
                data = frozenset(t for t in ft if is_data(t))
                if self.decide(self.smt.tag_in(v.path, data, v.tags)):
                    return self.get_attr(Sym(v.path, data, v.label), name, default, probe)
            v = self.as_obj(v)
            if ft:
                hh = self.hobj(v)
                hh.tags = frozenset(t for t in ft if not is_data(t)) or hh.tags
        if isinstance(v, (S,)):
            return Fn("strmethod", name, v)
        if isinstance(v, Tu):
            return Fn("tuplemethod", name, v)
        if not isinstance(v, Obj):
            raise Unsupported(f"attribute {name} of {v!r}")
        h = self.hobj(v)
        if h.kind in ("list", "set", "dict"):
            return Fn("contmethod", name, v)
        if name == "__dict__":
            return Fn("dictview", None, v)
        if name == "__class__":
            ci = self.cls_of(v)
            if ci is None:
                return Sym(h.path + ".__class__", None)
            return Fn("class", ci)
        # instance dict (with shallow-copy fall-through)
        cur = h
        root = h
        while cur is not None:
            if name in cur.deleted:
                break
            if name in cur.attrs:
                if not cur.fresh:
                    self.reads_global.add((cur.path, name))     # a read of pre-state, also when the value is cached
                return cur.attrs[name]
            root = cur
            cur = self.st.heap.get(cur.parent) if cur.parent is not None else None
        if root is not h and not root.fresh and name not in h.deleted:
            # shallow copy of a pre-state object: instance attributes come from the original
            ci0 = root.cls or (self.possible_classes(root) or [None])[0]
            if ci0 is not None and self.slot_spec(ci0, name) is not None:
                return self.get_attr(Obj(root.oid), name, default, probe)
        if name in CONTRACT_METHODS and h.cls is None:
            return Fn("contract", name, v)
        classes = self.possible_classes(h)
        if not classes:
            if h.fresh:
                raise Unsupported(f"attribute {name} on classless object")
            val = Sym(h.path + "." + name, None)
            h.attrs[name] = val
            return val
        if name in CONTRACT_PROPS and h.cls is None:
            val = self.contract_call(v, name, (), {}, prop=True)
            return val
        if len(classes) > 1:
            ft = self.feasible_tags(h.path, h.tags)
            if ft and ft != h.tags:
                h.tags = ft
                classes = self.possible_classes(h)
                if not classes:
                    val = Sym(h.path + "." + name, None)
                    return Fn("datamethod", name, Sym(h.path, ft))
        # partition the possible classes by what the lookup yields
        groups: dict = {}
        for ci in classes:
            k = self.lookup_kind(ci, name)
            if h.fresh and k[0] in ("slot", "optslot"):
                # a fresh object has exactly the attributes its constructor stored
                r = ci.resolve(name)
                k = ("func", r[1]) if r and r[0] == "func" else (("cattr", r[1], name) if r else
                                                                  (("hook", ci.resolve("__getattr__")[1])
                                                                   if ci.resolve("__getattr__") else ("missing",)))
            groups.setdefault(k, []).append(ci)
        chosen = None
        keys = list(groups)
        for i, k in enumerate(keys):
            if i == len(keys) - 1:
                chosen = k
                if len(keys) > 1:
                    h.tags = frozenset(c.short for c in groups[k])
                break
            names = frozenset(c.short for c in groups[k])
            if self.decide(self.smt.tag_in(h.path, names, h.tags)):
                chosen = k
                h.tags = frozenset(names)
                break
        k = chosen
        if k[0] in ("slot", "optslot"):
            if k[0] == "optslot":
                has = self.smt.atom(f"has!{h.path}.{name}")
                if not self.decide(has):
                    return self._missing(v, h, name, default, probe)
            val = self.make_sym(f"{h.path}.{name}", k[1])
            h.attrs[name] = val
            self.st.reads.append((h.oid, name))
            self.reads_global.add((h.path, name))
            return val
        if k[0] == "func":
            fi = k[1]
            if fi.kind == "property":
                return self.call_function(fi, [v], {}, self_val=v)
            if fi.kind == "static":
                return Fn("func", fi)
            if fi.kind == "class":
                return Fn("classbound", fi, Fn("class", self.cls_of(v) or fi.cls))
            return Fn("bound", fi, v)
        if k[0] == "cattr":
            return self.class_attr(k[1], name, inst=v)
        if k[0] == "hook":
            if h.cls is None and k[1].cls is not None and k[1].cls.name == "Not":
                # contract of Not.__getattr__ on a symbolic receiver: a pure delegation to the wrapped term;
                # the result is opaque (its body is verified separately for C15 with an exact receiver)
                val = Sym(f"{h.path}.{name}", None)
                return val
            return self.call_function(k[1], [v, K(name)], {}, self_val=v)
        return self._missing(v, h, name, default, probe)

    def _missing(self, v, h, name, default, probe):
        if default is not None:
            return default
        if probe:
            return None
        raise PathEnd("raise", ("AttributeError", f"{h.path}.{name}"))

    def class_attr(self, ci: ClassInfo, name: str, inst=None):
        live = ci.live.__dict__.get(name, None)
        expr = ci.attrs.get(name)
        import ast as _ast
        if isinstance(expr, (_ast.Dict, _ast.Lambda)):
            key = (ci.qual, name)
            if key not in self.const_cache:
                fr = Frame(None, ci, {}, None, ci.module)
                self.frames.append(fr)
                try:
                    self.const_cache[key] = self.eval(expr)
                    # class-level containers are global pre-state
                    val = self.const_cache[key]
                    if isinstance(val, Obj):
                        self.hobj(val).fresh = False
                        self.hobj(val).path = f"{ci.short}.{name}"
                finally:
                    self.frames.pop()
            val = self.const_cache[key]
            if isinstance(val, Obj) and val.oid not in self.st.heap:
                del self.const_cache[key]
                return self.class_attr(ci, name, inst)
            return val
        return self.lift_live(getattr(ci.live, name))

    def lift_live(self, obj) -> V:
        if isinstance(obj, type) and obj in self.repo.by_live:
            return Fn("class", self.repo.by_live[obj])
        if isinstance(obj, type):
            return K(obj)
        import types
        if isinstance(obj, types.FunctionType):
            q = getattr(obj, "__module__", "") + "." + obj.__qualname__
            fi = self.repo.funcs.get(q)
            if fi is not None:
                return Fn("func", fi)
            # decorated functions (builder/_copy) are resolved through the class table, not here
            return K(obj)
        return K(obj)

    def get_attr_concrete(self, v: K, name, default, probe):
        obj = v.v
        ci = self.repo.by_live.get(type(obj))
        if ci is not None:
            # a concrete instance of a package class (module-level constant such as DEFAULT_SQL_CONTEXT)
            if hasattr(obj, "__dict__") and name in obj.__dict__:
                return self.lift_live(obj.__dict__[name])
            r = ci.resolve(name)
            if r and r[0] == "func":
                fi = r[1]
                if fi.kind == "property":
                    return self.call_function(fi, [v], {}, self_val=v)
                if fi.kind == "static":
                    return Fn("func", fi)
                return Fn("bound", fi, v)
            if r:
                return self.class_attr(r[1], name)
        if obj is None or not hasattr(obj, name):
            if default is not None:
                return default
            if probe:
                return None
            raise PathEnd("raise", ("AttributeError", f"{type(obj).__name__}.{name}"))
        val = getattr(obj, name)
        if callable(val) and not isinstance(val, type):
            return Fn("live", val, v)
        return self.lift_live(val)

    def get_attr_fn(self, v: Fn, name, default, probe):
        if v.kind == "class":
            ci: ClassInfo = v.target
            r = ci.resolve(name)
            if r is None and name == "__new__":
                return Fn("builtin", "object_new")
            if r is None:
                if hasattr(ci.live, name):
                    return self.lift_live(getattr(ci.live, name))
                if default is not None:
                    return default
                if probe:
                    return None
                raise PathEnd("raise", ("AttributeError", f"{ci.short}.{name}"))
            if r[0] == "func":
                fi = r[1]
                if fi.kind == "class":
                    return Fn("classbound", fi, v)
                return Fn("func", fi)
            import enum
            if issubclass(ci.live, enum.Enum):
                return K(getattr(ci.live, name))
            return self.class_attr(r[1], name)
        if v.kind == "super":
            inst, after = v.self_, v.extra
            ci = self.cls_of(inst) if isinstance(inst, (Obj, K)) else None
            if ci is None:
                ci = after          # receiver class not exact: resolve along the defining class's own MRO
            r = ci.resolve_after(after, name)
            if r is None:
                if name == "__init__":
                    return Fn("builtin", "object_init", inst)
                raise PathEnd("raise", ("AttributeError", f"super.{name}"))
            if r[0] == "func":
                fi = r[1]
                if fi.kind == "static":
                    return Fn("func", fi)
                return Fn("bound", fi, inst)
            return self.class_attr(r[1], name)
        if v.kind == "dictview":
            return Fn("dictmethod", name, v.self_)
        if v.kind == "live" or v.kind == "func":
            if name in ("__name__", "__qualname__"):
                return K(getattr(v.target, "name", None) or getattr(v.target, "__name__", "?"))
        raise Unsupported(f"attribute {name} of {v!r}")

    # ------------------------------------------------------------------ writes
    def check_merge_write(self, target):
        """inside a merged arm only objects allocated within the arm may be written"""
        if self.merge_depth:
            if not isinstance(target, Obj) or not str(target.oid).startswith(self.merge_marks[-1] + "/"):
                raise MergeAbort()

    def note(self, n: str):
        self.st.notes.append(n)
        self.notes_global.add(n)

    def assigned_attrs(self, ci: ClassInfo) -> dict:
        """instance attributes assigned as self.<name> = ... anywhere in the MRO: name -> 'init' | 'lazy'"""
        key = ci.qual
        c = self._assigned_cache.get(key)
        if c is not None:
            return c
        import ast as _ast
        out = {}
        for k in ci.mro:
            for fname, fi in k.methods.items():
                if not fi.node.args.args:
                    continue
                selfname = fi.node.args.args[0].arg
                for n in _ast.walk(fi.node):
                    tgt = None
                    if isinstance(n, (_ast.Assign, _ast.AnnAssign, _ast.AugAssign)):
                        tgts = n.targets if isinstance(n, _ast.Assign) else [n.target]
                        for t in tgts:
                            if isinstance(t, _ast.Attribute) and isinstance(t.value, _ast.Name) and \
                                    t.value.id == selfname:
                                kind = "init" if fname == "__init__" else "lazy"
                                if out.get(t.attr) != "init":
                                    out[t.attr] = kind
                                val = getattr(n, "value", None)
                                if kind == "init" and val is not None and (key, t.attr) not in self._assigned_spec:
                                    sp = None
                                    if isinstance(val, (_ast.List, _ast.ListComp)):
                                        sp = "list[any]"
                                    elif isinstance(val, (_ast.Set, _ast.SetComp)) or (
                                            isinstance(val, _ast.Call) and isinstance(val.func, _ast.Name)
                                            and val.func.id == "set"):
                                        sp = "set[any]"
                                    elif isinstance(val, _ast.Call) and isinstance(val.func, _ast.Name) and \
                                            val.func.id == "list":
                                        sp = "list[any]"
                                    elif isinstance(val, _ast.Constant) and isinstance(val.value, bool):
                                        sp = "bool"
                                    if sp:
                                        self._assigned_spec[(key, t.attr)] = sp
        self._assigned_cache[key] = out
        return out

    def log_write(self, target: V, kind: str, attr: str, value=None, lineno=0, note=""):
        if isinstance(value, Gen) or (isinstance(value, Tu) and any(isinstance(i, Gen) for p in value.parts
                                                                      if isinstance(p, Elems) for i in p.items)):
            self.note(f"gen-stored:{self.ident(target)}.{attr}")
        if isinstance(target, Obj):
            h = self.hobj(target)
            oid, owned, path = h.oid, h.fresh, h.path
        elif isinstance(target, K):
            oid, owned, path = "-1", False, f"<global {type(target.v).__name__}>"
        else:
            oid, owned, path = "-2", False, repr(target)
        fn = self.frames[-1].func.short if self.frames and self.frames[-1].func else "?"
        self.st.writes.append(Write(oid, kind, attr, owned, conj(self.st.pc), path, value, lineno, fn,
                                    self.in_loop > 0, note))

    def set_attr(self, target: V, name: str, value: V, lineno=0):
        if isinstance(target, Sym):
            target = self.as_obj(target)
        if isinstance(target, IteV):
            target = target.a if self.decide(target.c) else target.b
        if isinstance(target, K):
            self.log_write(target, "attr", name, value, lineno)
            return
        if not isinstance(target, Obj):
            raise Unsupported(f"store to attribute of {target!r}")
        self.check_merge_write(target)
        self.log_write(target, "attr", name, value, lineno)
        h = self.hobj(target)
        h.attrs[name] = value
        h.deleted.discard(name)
