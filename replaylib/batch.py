"""runs a batch of witness searches in one process: stdin = JSON [[oracle, [args...]], ...], stdout = JSON [result|null]"""
import json
import sys

if __name__ == "__main__":
    import os
    sys.path.insert(0, os.path.dirname(os.path.dirname(os.path.abspath(__file__))))
    from replaylib import oracles
    out = []
    for name, args in json.load(sys.stdin):
        try:
            out.append(getattr(oracles, name)(*args))
        except Exception as e:      # a crashing search found nothing
            out.append(None)
            print(f"oracle {name}{args} crashed: {e!r}", file=sys.stderr)
    json.dump(out, sys.stdout)
