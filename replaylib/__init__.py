"""Replay support: concrete objects built through the public API of the real package, and property-level
oracles.  Pure Python, no solver; imported by the generated replay scripts which run under /venv/bin/python with
/repo first on sys.path - i.e. against the same tree the verification conditions were generated from.

This is NOT the deciding technique: verdicts come from the obligations.  The library only turns a refuted
obligation into a concrete failing input (or reports that none was found).
"""
from __future__ import annotations

import copy
import itertools
import os
import sys

REPO = os.environ.get("PYVC_REPO", "/repo")
if REPO not in sys.path:
    sys.path.insert(0, REPO)

import pypika_tortoise as pk  # noqa: E402
from pypika_tortoise import (JSON, Array, Bracket, Case, Field, Index, Interval, Not, NullValue,  # noqa: E402
                             Parameter, Parameterizer, Table, Tuple, ValueWrapper)
from pypika_tortoise import analytics as an  # noqa: E402
from pypika_tortoise import functions as fn  # noqa: E402
from pypika_tortoise import terms as T  # noqa: E402
from pypika_tortoise import queries as Q  # noqa: E402
from pypika_tortoise.dialects import (MSSQLQuery, MySQLQuery, OracleQuery, PostgreSQLQuery,  # noqa: E402
                                      SQLLiteQuery)
from pypika_tortoise.dialects.mysql import MySQLLoadQueryBuilder  # noqa: E402
from pypika_tortoise.enums import DatePart, Dialects, JoinType, Order, SqlTypes  # noqa: E402

QUERY_CLASSES = [pk.Query, MySQLQuery, PostgreSQLQuery, SQLLiteQuery, MSSQLQuery, OracleQuery]


def contexts():
    out = []
    for qc in QUERY_CLASSES:
        out.append((qc.__name__, qc.SQL_CONTEXT))
    return out


def render_all(obj, reverse=False):
    """all observable renderings of an object: str, every dialect context inline and parameterised"""
    if reverse:
        # same renderings requested in the opposite order (exposes state written by an earlier render)
        res = {}
        for name, ctx in reversed(contexts()):
            for par in (True, False):
                try:
                    if par:
                        p = Parameterizer()
                        sql = obj.get_sql(ctx.copy(parameterizer=p))
                        res[f"{name}/param"] = (sql, repr(p.values))
                    else:
                        res[f"{name}/inline"] = obj.get_sql(ctx)
                except Exception as e:
                    res[f"{name}/{'param' if par else 'inline'}"] = f"!{type(e).__name__}:{e}"
        return res
    res = {}
    try:
        res["str"] = str(obj)
    except Exception as e:      # rendering errors are observable too
        res["str"] = f"!{type(e).__name__}:{e}"
    if not hasattr(obj, "get_sql"):
        return res
    for name, ctx in contexts():
        for par in (False, True):
            try:
                if par:
                    p = Parameterizer()
                    sql = obj.get_sql(ctx.copy(parameterizer=p))
                    res[f"{name}/param"] = (sql, repr(p.values))
                else:
                    res[f"{name}/inline"] = obj.get_sql(ctx)
            except Exception as e:
                res[f"{name}/{'param' if par else 'inline'}"] = f"!{type(e).__name__}:{e}"
    for meta in ("alias",):
        try:
            res[meta] = repr(getattr(obj, meta, None)) if not isinstance(obj, (Q.Selectable,)) or meta in vars(obj) else None
        except Exception as e:
            res[meta] = f"!{type(e).__name__}"
    if isinstance(obj, T.Term) and not isinstance(obj, Q.Selectable):
        try:
            res["fields_"] = sorted(str(f) for f in obj.fields_())
            res["tables_"] = sorted(str(t) for t in obj.tables_)
            res["is_aggregate"] = obj.is_aggregate
        except Exception as e:
            res["meta"] = f"!{type(e).__name__}"
    return res


def tables():
    t = Table("t")
    u = Table("u")
    a = Table("abc", schema="sch", alias="a1")
    return t, u, a


def terms_universe():
    """(label, term) for every term class, with aliased and nested variants"""
    t, u, a = tables()
    f, g, h = t.foo, u.bar, a.baz
    out = [
        ("field", f), ("field_alias", f.as_("fa")), ("star", t.star), ("value", ValueWrapper(5)),
        ("value_str", ValueWrapper("it's")), ("value_alias", ValueWrapper(7, "va")),
        ("json", JSON({"a": [1, "x"]})), ("null", NullValue()), ("literal", T.LiteralValue("CURRENT_DATE")),
        ("param", Parameter("?")), ("negative", -f), ("tuple", Tuple(f, 1, "x")), ("array", Array(1, 2, f)),
        ("bracket", Bracket(f + 1)), ("basic", f == 1), ("basic_alias", (f == 1).as_("c")),
        ("nested", T.NestedCriterion(pk.enums.Equality.eq, pk.enums.Boolean.and_, f, g, h)),
        ("contains", f.isin([1, 2])), ("notin", f.notin([1, 2])), ("between", f.between(1, g)),
        ("period", f.from_to(1, 2)), ("bitand", f.bitwiseand(3)), ("isnull", f.isnull()),
        ("complex", (f == 1) & (g == 2)), ("complex_or", ((f == 1) | (g == 2)) & (h == 3)),
        ("arith", f + g * 2), ("arith_alias", (f - 1).as_("ar")), ("not", Not(f == 1)), ("all", T.All(f)),
        ("case", Case().when(f == 1, "a").when(g == 2, h).else_("z")), ("case_alias", Case("ca").when(f == 1, 2)),
        ("func", fn.Coalesce(f, 0)), ("func_alias", fn.Lower(f).as_("lo")), ("agg", fn.Sum(f)),
        ("agg_distinct", fn.Count(f).distinct()), ("agg_filter", fn.Sum(f).filter(g == 1)),
        ("cast", fn.Cast(f, SqlTypes.VARCHAR(10))), ("extract", fn.Extract(DatePart.year, f)),
        ("analytic", an.Rank().over(f).orderby(g)), ("window", an.Sum(f).over(g).orderby(h).rows(an.Preceding(1))),
        ("firstvalue", an.FirstValue(f).over(g).ignore_nulls()), ("ntile", an.NTile(4).orderby(f)),
        ("rollup", T.Rollup(f, g)), ("pseudo", T.PseudoColumn("ROWNUM")), ("attz", T.AtTimezone(f, "UTC")),
        ("values", T.Values("foo")), ("index", Index("idx")), ("pow", f ** 2), ("mod", f % 3),
        ("interval", Interval(days=1)), ("interval_hm", Interval(hours=2, minutes=3)),
        ("interval_neg", Interval(microseconds=-5)),
    ]
    return [(k, v) for k, v in out if v is not None]


def queries_universe():
    t, u, a = tables()
    out = []
    for qc in QUERY_CLASSES:
        n = qc.__name__
        sel = qc.from_(t).select(t.foo, (t.bar + 1).as_("b1")).where(t.foo == 1)
        out.append((f"{n}.select", sel))
        out.append((f"{n}.select_full", qc.from_(t).join(u).on(t.id == u.tid).select(t.foo, fn.Sum(u.x).as_("s"))
                    .where((t.foo > 1) & (u.y == "v")).groupby(t.foo).having(fn.Sum(u.x) > 3)
                    .orderby(t.foo, order=Order.desc).limit(10).offset(5)))
        out.append((f"{n}.subquery", qc.from_(sel).select("foo")))
        out.append((f"{n}.insert", qc.into(t).columns("a", "b").insert(1, "x").insert(2, "y")))
        out.append((f"{n}.update", qc.update(t).set(t.a, 1).set("b", "z").where(t.id == 3)))
        out.append((f"{n}.delete", qc.from_(t).delete().where(t.id == 3)))
        out.append((f"{n}.union", sel.union(qc.from_(u).select(u.foo, u.b1))))
        out.append((f"{n}.cte", qc.with_(sel, "c1").from_(Q.AliasedQuery("c1")).select("*")))
        out.append((f"{n}.empty", qc._builder()))
        out.append((f"{n}.index", qc.from_(t).select(t.foo).force_index("i1").use_index("i2")))
        out.append((f"{n}.rollup", qc.from_(t).select(t.foo).groupby(t.bar).rollup(t.foo)))
        out.append((f"{n}.for_update", qc.from_(t).select(t.foo).for_update(of=("t",))))
        out.append((f"{n}.for_update2", qc.from_(t).select(t.foo).for_update(of=("abc", "cba", "t", "u", "zeta"))))
        out.append((f"{n}.distinct", qc.from_(t).select(t.foo).distinct()))
        out.append((f"{n}.upsert", qc.into(t).insert(1, 2).on_conflict("id").do_update("a", 5)))
        out.append((f"{n}.update_join", qc.update(t).join(u).on(t.id == u.tid).set(t.a, u.b).where(u.c == 1)))
    out.append(("pg.returning", PostgreSQLQuery.into(t).insert(1).returning(t.id)))
    out.append(("pg.distinct_on", PostgreSQLQuery.from_(t).select(t.foo).distinct_on(t.bar)))
    out.append(("mysql.modifier", MySQLQuery.from_(t).select(t.foo).modifier("SQL_CALC_FOUND_ROWS")))
    out.append(("mssql.top", MSSQLQuery.from_(t).select(t.foo).top(5)))
    out.append(("create", pk.Query.create_table("nt").columns(Q.Column("a", "INT"), ("b", "VARCHAR(10)"))
                .unique("a").primary_key("a").period_for("p", "s", "e")))
    out.append(("create_as", pk.Query.create_table("nt").as_select(pk.Query.from_(t).select("*"))))
    out.append(("drop", pk.Query.drop_table("nt").if_exists()))
    out.append(("load", MySQLQuery.load("/f.csv").into("t")))
    out.append(("table", t))
    out.append(("table_alias", a))
    out.append(("table_for", t.for_(t.sys == 1)))
    out.append(("schema_table", Table("x", schema=("db", "s"))))
    out.append(("aliased_query", Q.AliasedQuery("aq", pk.Query.from_(t).select("*"))))
    return out


def universe():
    return terms_universe() + queries_universe()


def arg_candidates():
    """candidate argument tuples for builder methods, tried in order until one is accepted"""
    t, u, a = tables()
    w = Table("w")
    f, g = t.foo, u.bar
    c1, c2 = (t.foo == 1), (u.bar == 2)
    sub = pk.Query.from_(w).select(w.x)
    cands = [
        (), ("n1",), ("n2",), (f,), (g,), (c1,), (c2,), (1,), (2,), (t,), (u,), (w,), (sub,),
        (f, 1), (g, 2), ("n1", 1), ("n2", 2), (c1, 1), (c2, "b"), (t, u), (u, w), (w, t), (t, w), (sub, "s1"),
        (sub, "s2"), (slice(1, 2),), (slice(3, 4),), ("n1", "s", "e"), ("n2", "s2", "e2"), (an.Preceding(1),),
        (an.Preceding(2), an.Following(3)), (Q.Column("cx"),), (Q.Column("cy"),), (("b", "INT"),),
        (f.from_to(1, 2),), (g.from_to(3, 4),), ([f],), ([1, 2],), ([3, 4],),
    ]
    kw = [{}, {"order": Order.desc}, {"vendor": "mysql"}, {"of": ("t",)}, {"alias": "zz"}]
    return cands, kw


def call_variants(obj, name, limit=6):
    """yield (args, kwargs, result) for argument candidates the method accepts on copies of obj"""
    cands, kws = arg_candidates()
    n = 0
    for kw in kws:
        for args in cands:
            try:
                m = getattr(obj, name)
                r = m(*args, **kw)
            except Exception:
                continue
            yield args, kw, r
            n += 1
            if n >= limit:
                return
        if n:
            # keyword variants only when the plain ones were accepted
            pass
