"""Property-level oracles used by replay scripts.  Each returns None (no failing input found) or a string
describing the concrete failing input, obtained by running the real package."""
from __future__ import annotations

import copy
import os
import pickle
import subprocess
import sys

from . import (QUERY_CLASSES, Parameterizer, arg_candidates, call_variants, contexts, pk, render_all, universe)


def _objs_of(cls_short: str, method: str | None = None):
    """universe objects whose exact class is `cls_short` (e.g. queries.QueryBuilder); when there is none, objects
    of subclasses that inherit `method` unchanged from that class"""
    out, sub = [], []
    target = None
    parts = cls_short.split(".")
    try:
        import importlib
        for i in range(len(parts) - 1, 0, -1):
            try:
                m = importlib.import_module("pypika_tortoise." + ".".join(parts[:i]))
                target = m
                for p in parts[i:]:
                    target = getattr(target, p)
                break
            except ImportError:
                continue
    except Exception:
        target = None
    for label, obj in universe():
        c = type(obj)
        q = (c.__module__ + "." + c.__qualname__).replace("pypika_tortoise.", "")
        if q == cls_short:
            out.append((label, obj))
        elif isinstance(target, type) and isinstance(obj, target):
            if method is None or getattr(c, method, None) is getattr(target, method, None):
                sub.append((label, obj))
    return out or sub


def _diff(a: dict, b: dict):
    for k in a:
        if a[k] != b.get(k):
            return f"{k}: {a[k]!r} -> {b.get(k)!r}"
    return None


def frame(func_short: str, cls_short: str):
    """C01: branch twice (and once more from the first child) from one receiver; every live object must render
    as before"""
    name = func_short.split(".")[-1]
    for label, obj in _objs_of(cls_short, name):
        if not getattr(obj, "immutable", True):
            continue
        before = render_all(obj)
        try:
            firsts = list(call_variants(obj, name, limit=4))
        except Exception:
            continue
        d = _diff(before, render_all(obj))
        if d:
            return f"{label}.{name}(...) changed the receiver: {d}"
        for args1, kw1, r1 in firsts:
            s1 = render_all(r1) if hasattr(r1, "get_sql") else None
            for args2, kw2, r2 in call_variants(obj, name, limit=4):
                d = _diff(before, render_all(obj))
                if d:
                    return f"{label}: second call {name}{args2!r} changed the receiver: {d}"
                if s1 is not None:
                    d = _diff(s1, render_all(r1))
                    if d:
                        return (f"{label}: r1 = x.{name}{args1!r}; x.{name}{args2!r} changed r1 "
                                f"(an object derived earlier): {d}")
            if hasattr(r1, name):
                for args3, kw3, r3 in call_variants(r1, name, limit=3):
                    d = _diff(before, render_all(obj))
                    if d:
                        return f"{label}: x.{name}{args1!r}.{name}{args3!r} changed the ancestor x: {d}"
    return None


def purity(func_short: str, cls_short: str):
    """C02: render k times, interleaved with other contexts; identical output and untouched object"""
    for label, obj in _objs_of(cls_short):
        snaps = [render_all(obj) for _ in range(3)]
        for s in snaps[1:]:
            d = _diff(snaps[0], s)
            if d:
                return f"{label}: repeated rendering differs: {d}"
        try:
            h1, h2 = hash(obj), hash(obj)
            if h1 != h2:
                return f"{label}: hash changes between calls"
        except TypeError:
            pass
    return None


def hashseed(cls_short: str, seeds=(0, 1, 2, 3, 4, 5)):
    """C02: the same program under different PYTHONHASHSEED values renders identically"""
    prog = ("import sys; sys.path.insert(0, %r); sys.path.insert(0, %r)\n"
            "import replaylib as rl\n"
            "for k, o in rl.universe():\n"
            "    c = type(o); q = (c.__module__ + '.' + c.__qualname__).replace('pypika_tortoise.', '')\n"
            "    if q == %r: print(k, sorted(rl.render_all(o).items(), key=str))\n"
            % (os.path.dirname(os.path.dirname(os.path.abspath(__file__))), os.environ.get("PYVC_REPO", "/repo"),
               cls_short))
    outs = {}
    for s in seeds:
        env = dict(os.environ, PYTHONHASHSEED=str(s), PYTHONDONTWRITEBYTECODE="1")
        r = subprocess.run([sys.executable, "-c", prog], capture_output=True, text=True, env=env)
        outs[s] = r.stdout
    vals = set(outs.values())
    if len(vals) > 1:
        a, b = list(vals)[:2]
        for la, lb in zip(a.splitlines(), b.splitlines()):
            if la != lb:
                return f"output depends on PYTHONHASHSEED: {la[:300]} VS {lb[:300]}"
    return None
