"""Property-level oracles used by replay scripts.  Each returns None (no failing input found) or a string
describing the concrete failing input, obtained by running the real package."""
from __future__ import annotations

import copy
import os
import pickle
import subprocess
import sys

from . import (QUERY_CLASSES, Parameterizer, arg_candidates, call_variants, contexts, pk, render_all, universe)


def _objs_of(cls_short: str, method: str | None = None):
    """universe objects whose exact class is `cls_short` (e.g. queries.QueryBuilder); when there is none, objects
    of subclasses that inherit `method` unchanged from that class"""
    out, sub = [], []
    target = None
    parts = cls_short.split(".")
    try:
        import importlib
        for i in range(len(parts) - 1, 0, -1):
            try:
                m = importlib.import_module("pypika_tortoise." + ".".join(parts[:i]))
                target = m
                for p in parts[i:]:
                    target = getattr(target, p)
                break
            except ImportError:
                continue
    except Exception:
        target = None
    for label, obj in universe():
        c = type(obj)
        q = (c.__module__ + "." + c.__qualname__).replace("pypika_tortoise.", "")
        if q == cls_short:
            out.append((label, obj))
        elif isinstance(target, type) and isinstance(obj, target):
            if method is None or getattr(c, method, None) is getattr(target, method, None):
                sub.append((label, obj))
    return out or sub


def _diff(a: dict, b: dict):
    for k in a:
        if a[k] != b.get(k):
            return f"{k}: {a[k]!r} -> {b.get(k)!r}"
    return None


def frame(func_short: str, cls_short: str):
    """C01: branch twice (and once more from the first child) from one receiver; every live object must render
    as before"""
    name = func_short.split(".")[-1]
    for label, obj in _objs_of(cls_short, name):
        if not getattr(obj, "immutable", True):
            continue
        before = render_all(obj)
        try:
            firsts = list(call_variants(obj, name, limit=4))
        except Exception:
            continue
        d = _diff(before, render_all(obj))
        if d:
            return f"{label}.{name}(...) changed the receiver: {d}"
        for args1, kw1, r1 in firsts:
            s1 = render_all(r1) if hasattr(r1, "get_sql") else None
            for args2, kw2, r2 in call_variants(obj, name, limit=4):
                d = _diff(before, render_all(obj))
                if d:
                    return f"{label}: second call {name}{args2!r} changed the receiver: {d}"
                if s1 is not None:
                    d = _diff(s1, render_all(r1))
                    if d:
                        return (f"{label}: r1 = x.{name}{args1!r}; x.{name}{args2!r} changed r1 "
                                f"(an object derived earlier): {d}")
            if hasattr(r1, name):
                for args3, kw3, r3 in call_variants(r1, name, limit=3):
                    d = _diff(before, render_all(obj))
                    if d:
                        return f"{label}: x.{name}{args1!r}.{name}{args3!r} changed the ancestor x: {d}"
    return None


def purity(func_short: str, cls_short: str):
    """C02: render k times, interleaved with other contexts; identical output and untouched object"""
    for label, obj in _objs_of(cls_short):
        snaps = [render_all(obj) for _ in range(3)]
        for s in snaps[1:]:
            d = _diff(snaps[0], s)
            if d:
                return f"{label}: repeated rendering differs: {d}"
        try:
            h1, h2 = hash(obj), hash(obj)
            if h1 != h2:
                return f"{label}: hash changes between calls"
        except TypeError:
            pass
    # the same object built twice, rendered under the contexts in opposite orders, with the attribute names before/after
    first = dict(_objs_of(cls_short))
    second = dict(_objs_of(cls_short))
    for label in first:
        if label not in second or not hasattr(first[label], "get_sql"):
            continue
        try:
            before = set(vars(second[label]))
        except TypeError:
            before = None
        fwd = render_all(first[label])
        back = render_all(second[label], reverse=True)
        for k, v in back.items():
            if k in fwd and fwd[k] != v and " at 0x" not in repr(v):
                return (f"{label}: rendering {k} depends on what was rendered before: {fwd[k]!r} when rendered in "
                        f"context order, {v!r} in the opposite order")
        if before is not None and set(vars(second[label])) != before:
            return f"{label}: rendering adds attributes {sorted(set(vars(second[label])) - before)} to the object"
    return None


def hashseed(cls_short: str, seeds=(0, 1, 2, 3, 4, 5)):
    """C02: the same program under different PYTHONHASHSEED values renders identically"""
    prog = ("import sys; sys.path.insert(0, %r); sys.path.insert(0, %r)\n"
            "import replaylib as rl\n"
            "for k, o in rl.universe():\n"
            "    c = type(o); q = (c.__module__ + '.' + c.__qualname__).replace('pypika_tortoise.', '')\n"
            "    if q == %r: print(k, sorted(rl.render_all(o).items(), key=str))\n"
            % (os.path.dirname(os.path.dirname(os.path.abspath(__file__))), os.environ.get("PYVC_REPO", "/repo"),
               cls_short))
    outs = {}
    for s in seeds:
        env = dict(os.environ, PYTHONHASHSEED=str(s), PYTHONDONTWRITEBYTECODE="1")
        r = subprocess.run([sys.executable, "-c", prog], capture_output=True, text=True, env=env)
        outs[s] = r.stdout
    vals = set(outs.values())
    if len(vals) > 1:
        a, b = list(vals)[:2]
        for la, lb in zip(a.splitlines(), b.splitlines()):
            if la != lb:
                return f"output depends on PYTHONHASHSEED: {la[:300]} VS {lb[:300]}"
    return None


def _ctx(qc=None, **kw):
    qc = qc or pk.Query
    return qc.SQL_CONTEXT.copy(**kw)


def _slot_get(obj, rk):
    """value at a canonical slot path such as self.left / self.values[*] / self._orderbys[*].0"""
    cur = obj
    parts = rk.replace("self.", "", 1).replace("[*]", ".[*]").split(".")
    trail = []
    for p in parts:
        if not p:
            continue
        if p == "[*]":
            if not cur:
                return None, None
            trail.append((cur, 0))
            cur = cur[0]
        elif p.isdigit():
            trail.append((cur, int(p)))
            cur = cur[int(p)]
        else:
            trail.append((cur, p))
            cur = getattr(cur, p, None) if not isinstance(cur, dict) else cur.get(p)
        if cur is None:
            return None, None
    return cur, trail


def _slot_set(obj, trail, value):
    """returns a shallow copy of obj with the slot replaced (containers copied along the way)"""
    new = copy.copy(obj)
    holder, key = trail[0]
    if len(trail) == 1:
        if isinstance(key, str):
            setattr(new, key, value)
        return new
    # rebuild containers from the inside out
    v = value
    for holder, key in reversed(trail[1:]):
        if isinstance(holder, (list, tuple)):
            lst = list(holder)
            lst[key] = v
            v = type(holder)(lst) if isinstance(holder, tuple) else lst
        else:
            h2 = copy.copy(holder)
            setattr(h2, key, v)
            v = h2
    setattr(new, trail[0][1], v)
    return new


def position_site(func_short, cls_short, rk, flag, want):
    """C10/C12: a child rendered at a site carries an alias; it must (want=True) or must not (want=False) be
    printed there"""
    if flag != "with_alias":
        return None
    name = func_short.split(".")[-1]
    for label, obj in _objs_of(cls_short, name if name == "get_sql" else None) or universe():
        child, trail = _slot_get(obj, rk) if rk.startswith("self.") else (None, None)
        if child is None or not hasattr(child, "as_"):
            continue
        try:
            marked = _slot_set(obj, trail, child.as_("zz9"))
        except Exception:
            continue
        for cname, ctx in contexts():
            for outer_alias in (True, False):
                try:
                    sql = marked.get_sql(ctx.copy(with_alias=outer_alias))
                except Exception:
                    continue
                q = (ctx.alias_quote_char or ctx.quote_char or "")
                printed = f"{q}zz9{q}" in sql and (" " + f"{q}zz9{q}") in sql
                if printed != bool(want):
                    return (f"{label} with the child at {rk} aliased 'zz9', rendered by {cname} with "
                            f"with_alias={outer_alias}: {sql!r} - the child's alias is "
                            f"{'printed' if printed else 'missing'} in a position that "
                            f"{'must not' if not want else 'must'} print it")
    return None


def alias_class(cls_short, mode):
    """C12: a term of this class with an alias, in a defining (on) / operand (off) position"""
    for label, obj in _objs_of(cls_short, "get_sql"):
        if not hasattr(obj, "as_"):
            continue
        try:
            a = obj.as_("zz9")
        except Exception:
            continue
        for cname, ctx in contexts():
            q = (ctx.alias_quote_char or ctx.quote_char or "")
            try:
                sql = a.get_sql(ctx.copy(with_alias=(mode == "on")))
            except Exception:
                continue
            ends = sql.endswith(f"{q}zz9{q}")
            if mode == "on" and not ends:
                return f"{label}.as_('zz9') in a defining position ({cname}, with_alias=True) renders {sql!r}: alias missing"
            if mode == "off" and f"{q}zz9{q}" in sql:
                return f"{label}.as_('zz9') in an operand position ({cname}, with_alias=False) renders {sql!r}: alias printed"
    return None


def ns_decision(cls_short, fname, rk):
    """C11: statements whose clause at (fname, rk) is qualified differently from the rule"""
    from . import Table, fn
    t, u = Table("t"), Table("u")
    out = []
    for qc in QUERY_CLASSES:
        b = type(qc._builder())
        if (b.__module__ + "." + b.__qualname__).replace("pypika_tortoise.", "") != cls_short:
            continue
        if fname == "_returning_sql":
            q = qc.update(t).set(t.a, 1).where(t.b == 2).returning(t.a)
            sql = str(q)
            if '"t"."a"' in sql.split("RETURNING")[1]:
                return f"{qc.__name__}.update(t).set(t.a,1).where(t.b==2).returning(t.a) -> {sql!r}: one row source in scope but RETURNING is qualified"
        if fname in ("_orderby_sql", "_limit_sql"):
            q = qc.update(t).join(u).on(t.id == u.tid).set(t.a, 1).orderby(t.a)
            sql = str(q)
            tail = sql.split("ORDER BY")[-1] if "ORDER BY" in sql else ""
            if tail and "." not in tail:
                return f"{qc.__name__}.update(t).join(u)...orderby(t.a) -> {sql!r}: two row sources but ORDER BY column is bare"
    return None


def foreign_flag(cls_short, method):
    """C11: a criterion on a foreign table followed by a criterion on the statement's own table"""
    from . import Table, fn
    items, orders = Table("items"), Table("orders")
    for qc in QUERY_CLASSES:
        b = type(qc._builder())
        if (b.__module__ + "." + b.__qualname__).replace("pypika_tortoise.", "") != cls_short:
            continue
        q = qc.from_(items).select(fn.Count("*"))
        q1 = getattr(q, method)(items.order_id == orders.id)
        q2 = getattr(q1, method)(items.qty > 0)
        s1, s2 = str(q1), str(q2)
        qc_ = qc.SQL_CONTEXT.quote_char
        if f"{qc_}items{qc_}.{qc_}order_id{qc_}" in s1 and f"{qc_}items{qc_}.{qc_}order_id{qc_}" not in s2:
            return f"{qc.__name__}: {method}(items.order_id == orders.id) renders {s1!r}; adding {method}(items.qty > 0) renders {s2!r}: qualification lost"
    return None


def plain_data(func_short):
    """C04: a parameter list that contains a query-builder object"""
    from . import Interval, Q, T
    bad = lambda vals: [v for v in vals if isinstance(v, (T.Node, Q.QueryBuilder))]
    if func_short.endswith("Column.__init__"):
        c = pk.Query.create_table("x").columns(Q.Column("a", "INT", default=Interval(days=1)))
        p = Parameterizer()
        sql = c.get_sql(pk.Query.SQL_CONTEXT.copy(parameterizer=p))
        if bad(p.values):
            return f"Column('a', default=Interval(days=1)) rendered with a parameterizer: {sql!r} values={p.values!r}"
    if func_short.endswith("Array.get_sql"):
        from . import Array, Field
        a = Array(Field("x"), 1)
        p = Parameterizer()
        sql = a.get_sql(pk.Query.SQL_CONTEXT.copy(parameterizer=p))
        if any(bad(v) if isinstance(v, list) else bad([v]) for v in p.values):
            return f"Array(Field('x'), 1) rendered with a parameterizer: {sql!r} values={p.values!r}"
    if func_short.endswith("do_update"):
        t = T.Field("b")
        for qc in QUERY_CLASSES:
            q = qc.into("t").insert(1).on_conflict("id").do_update("b", t + 1)
            try:
                sql, vals = q.get_parameterized_sql()
            except Exception:
                continue
            if bad(vals):
                return f"{qc.__name__}...do_update('b', Field('b')+1).get_parameterized_sql() -> {sql!r}, {vals!r}"
    return None


def param_equivalence(cls_short):
    """C04: parameterised vs inline rendering of universe statements: placeholders in text order = values"""
    import re
    for label, obj in universe():
        if not hasattr(obj, "get_sql") or label == "param":
            continue        # an explicit Parameter("?") of the user is a placeholder without a recorded value by design
        for qc in QUERY_CLASSES:
            ctx = qc.SQL_CONTEXT
            p = Parameterizer()
            try:
                sql = obj.get_sql(ctx.copy(parameterizer=p))
            except Exception:
                continue
            style = {"POSTGRESQL": r"\$\d+", "MYSQL": r"%s"}.get(ctx.dialect.name, r"\?")
            body = re.sub(r"'(?:[^']|'')*'", "''", sql)
            n = len(re.findall(style, body))
            if n != len(p.values):
                return f"{label} under {qc.__name__}: {n} placeholders but {len(p.values)} values: {sql!r} {p.values!r}"
            if ctx.dialect.name == "POSTGRESQL":
                nums = [int(x[1:]) for x in re.findall(style, body)]
                if nums != list(range(1, n + 1)):
                    return f"{label} under {qc.__name__}: placeholders numbered {nums}: {sql!r}"
    return None


def _builder_qc(cls_short):
    for qc in QUERY_CLASSES:
        b = type(qc._builder())
        if (b.__module__ + "." + b.__qualname__).replace("pypika_tortoise.", "") == cls_short:
            return qc
    return None


def _rowlimit_ok(dialect_cls, tail, has_l, has_o):
    """reference row-limiting grammar on a rendered tail with values 7 (limit) and 3 (offset)"""
    import re
    d = dialect_cls.split(".")[-1]
    if d == "MSSQLQueryBuilder":
        pat = r"^( ORDER BY \(SELECT 0\))? OFFSET (3|0) ROWS( FETCH NEXT 7 ROWS ONLY)?$" if (has_l or has_o) else r"^$"
    elif d == "OracleQueryBuilder":
        pat = r"^( OFFSET 3 ROWS)?( FETCH NEXT 7 ROWS ONLY)?$"
    elif d == "PostgreSQLQueryBuilder":
        pat = r"^( LIMIT 7)?( OFFSET 3)?$"
    else:
        pat = r"^( LIMIT 7( OFFSET 3)?)?$"
    return re.match(pat, tail) is not None


def pagination(cls_short, has_l, has_o, has_ord):
    from . import Table
    qc = _builder_qc(cls_short)
    if qc is None:
        return None
    t = Table("t")
    q = qc.from_(t).select(t.a)
    if has_ord:
        q = q.orderby(t.a)
    if has_l:
        q = q.limit(7)
    if has_o:
        q = q.offset(3)
    sql = str(q)
    base = str(qc.from_(t).select(t.a).orderby(t.a)) if has_ord else str(qc.from_(t).select(t.a))
    tail = sql[len(base):]
    if not _rowlimit_ok(cls_short, tail, has_l, has_o):
        return f"{qc.__name__} limit={'7' if has_l else None} offset={'3' if has_o else None} renders {sql!r}: the tail {tail!r} is not the dialect's row-limiting clause"
    return None


def pagination_setop(base_short, has_l, has_o):
    from . import Table
    qc = _builder_qc(base_short)
    if qc is None:
        return None
    t = Table("t")
    s = qc.from_(t).select(t.a).union(qc.from_(t).select(t.b))
    base = str(s)
    if has_l:
        s = s.limit(7)
    if has_o:
        s = s.offset(3)
    tail = str(s)[len(base):]
    if not _rowlimit_ok(base_short, tail, has_l, has_o):
        return f"{qc.__name__} union with limit={'7' if has_l else None} offset={'3' if has_o else None}: tail {tail!r} is not the dialect's row-limiting clause"
    return None


def pagination_setter(cls_short, method):
    from . import Table
    qc = _builder_qc(cls_short)
    if qc is None:
        return None
    t = Table("t")
    q = qc.from_(t).select(t.a).limit(10).offset(5)
    if method == "slice":
        q2 = q[0:3]
        sql = str(q2)
        if "5" in sql.split("FROM")[1]:
            return f"{qc.__name__} q.limit(10).offset(5)[0:3] renders {sql!r}: the slice start 0 did not replace the offset"
    return None


def incomplete(cls_short):
    """C13: incomplete builders must render ''"""
    from . import Table, Q, MySQLLoadQueryBuilder
    t = Table("t")
    cands = []
    qc = _builder_qc(cls_short)
    if qc is not None:
        b = qc._builder
        cands = [("delete()", b().delete()), ("update(t)", b().update(t)), ("into(t)", b().into(t)),
                 ("from_(t)", b().from_(t)), ("update(t).where().limit()", b().update(t).where(t.a == 1).limit(5)),
                 ("update(t).orderby()", b().update(t).orderby(t.a)),
                 ("into(t).columns()", b().into(t).columns("a")), ("from_(t).where()", b().from_(t).where(t.a == 1))]
    elif cls_short.endswith("CreateQueryBuilder"):
        cands = [("create_table", Q.CreateQueryBuilder().create_table("x")), ("columns", Q.CreateQueryBuilder().columns("a"))]
    elif cls_short.endswith("DropQueryBuilder"):
        cands = [("if_exists", Q.DropQueryBuilder().if_exists())]
    elif cls_short.endswith("MySQLLoadQueryBuilder"):
        cands = [("load", MySQLLoadQueryBuilder().load("f")), ("into", MySQLLoadQueryBuilder().into("t"))]
    for label, q in cands:
        try:
            s = str(q)
        except Exception:
            continue
        if s != "":
            return f"{cls_short} {label} is incomplete but renders the fragment {s!r}"
    return None


def wellformed(cls_short):
    """C13: bracket balance and clause order on the universe statements of a builder class"""
    import re
    for label, obj in universe():
        c = type(obj)
        if (c.__module__ + "." + c.__qualname__).replace("pypika_tortoise.", "") != cls_short:
            continue
        try:
            s = str(obj)
        except Exception:
            continue
        body = re.sub(r"'(?:[^']|'')*'", "''", s)
        d = 0
        for ch in body:
            d += ch == "("
            d -= ch == ")"
            if d < 0:
                return f"{label}: unbalanced brackets in {s!r}"
        if d != 0:
            return f"{label}: unbalanced brackets in {s!r}"
    return None


def interval():
    """C18: parse the literal back with the unit designator's field layout"""
    import itertools
    import re
    from . import Interval
    units = ["years", "months", "days", "hours", "minutes", "seconds", "microseconds"]
    labels = ["YEAR", "MONTH", "DAY", "HOUR", "MINUTE", "SECOND", "MICROSECOND"]
    seps = ["-", "-", " ", ":", ":", "."]
    vals = [0, 3, 10, 205]
    for combo in itertools.product(vals, repeat=7):
        for sign in (1, -1):
            nz = [i for i in range(7) if combo[i]]
            if not nz:
                continue
            kw = {units[i]: combo[i] for i in nz}
            kw[units[nz[0]]] *= sign
            for qc in QUERY_CLASSES:
                try:
                    sql = Interval(**kw).get_sql(qc.SQL_CONTEXT)
                except Exception as e:
                    return f"Interval({kw}) raises {e!r}"
                m = re.match(r"^INTERVAL '(-?)([0-9 :.\-]*?)(?: ([A-Z_]+)'|' ([A-Z_]+))$", sql)
                if not m:
                    return f"Interval({kw}) under {qc.__name__} renders {sql!r}: not an interval literal"
                neg, expr, unit = m.group(1), m.group(2), m.group(3) or m.group(4)
                ls = unit.split("_")
                f, l = labels.index(ls[0]), labels.index(ls[-1])
                want = "".join(str(combo[i]) + (seps[i] if i < l else "") for i in range(f, l + 1))
                ok = (f, l) == (nz[0], nz[-1]) and expr == want and (neg == "-") == (sign < 0)
                if not ok:
                    return f"Interval({kw}) under {qc.__name__} renders {sql!r}; read with layout {unit} it does not denote the components"
    # the same object rendered under several dialects renders like a fresh one each time
    for kw in ({"days": 1}, {"hours": 2, "minutes": 3}, {"years": 1, "months": 2}):
        shared = Interval(**kw)
        for qc in list(QUERY_CLASSES) + list(reversed(QUERY_CLASSES)):
            a, b = shared.get_sql(qc.SQL_CONTEXT), Interval(**kw).get_sql(qc.SQL_CONTEXT)
            if a != b:
                return (f"Interval({kw}) rendered under {qc.__name__} after other dialects gives {a!r}, a fresh "
                        f"object gives {b!r}")
    # large components stay in their own field (no carrying between fields), also for negative intervals
    for kw in ({"microseconds": 1500000}, {"microseconds": -1500000}, {"seconds": 75}, {"minutes": 61, "seconds": 1},
               {"seconds": 1, "microseconds": 2500000}):
        sql = Interval(**kw).get_sql(QUERY_CLASSES[0].SQL_CONTEXT)
        for v in kw.values():
            if str(abs(v)) not in sql:
                return f"Interval({kw}) renders {sql!r}: the component {abs(v)} is not in the literal"
    for kw in ({"quarters": 2}, {"quarters": -2}, {"weeks": 5}, {"weeks": -5}):
        sql = str(Interval(**kw))
        n = list(kw.values())[0]
        if str(n) not in sql:
            return f"Interval({kw}) renders {sql!r}"
    return None


def fields_dedup():
    from . import Table
    t, v = Table("t"), Table("v")
    got = (t.x == v.x).fields_()
    if len(got) != 2:
        return f"(t.x == v.x).fields_() == {got!r}: two distinct (table, column) references, {len(got)} element(s)"
    a, b = Table("t", schema="s1"), Table("t", schema="s2")
    got = (a.x == b.x).fields_()
    if len(got) != 2:
        return f"(s1.t.x == s2.t.x).fields_() has {len(got)} element(s): the tables differ by schema"
    return None


def nodes_cover(cls_short, slot):
    from . import Table, ValueWrapper
    t = Table("t")
    if cls_short.endswith("ValueWrapper"):
        w = ValueWrapper(t.a)
        if not w.fields_():
            return f"ValueWrapper(t.a).fields_() == {w.fields_()!r} although it renders {str(w)!r}"
    for label, obj in _objs_of(cls_short, "nodes_"):
        child, trail = _slot_get(obj, "self." + slot)
        if child is None:
            continue
        kids = child if isinstance(child, (list, tuple)) else [child]
        for k in kids:
            k = k[0] if isinstance(k, tuple) else k
            if hasattr(k, "fields_") and k.fields_() and not set(map(str, k.fields_())) <= set(map(str, obj.fields_())):
                return f"{label}: fields of slot {slot} {k.fields_()!r} are missing from fields_() == {obj.fields_()!r}"
    return None


def eq_hash(cls_short):
    from . import Table, pk
    t = Table("t")
    if cls_short == "queries.Table":
        a, b = t, t.for_(t.sys == 1)
        if a == b and hash(a) != hash(b):
            return "Table('t') == Table('t').for_(c) but their hashes differ"
    qc = _builder_qc(cls_short)
    if qc is not None:
        q1, q2 = qc.from_("a").select("x"), qc.from_("b").select("y")
        if q1 == q2 and hash(q1) != hash(q2):
            return f"{qc.__name__}.from_('a') == {qc.__name__}.from_('b') (same alias None) but their hashes differ"
    return None


def tables_complete():
    from . import Table
    a, b = Table("a"), Table("b")
    c = (a.id == b.id)
    got = {str(t) for t in c.tables_}
    if got != {'"a"', '"b"'}:
        return f"(a.id == b.id).tables_ == {got!r}: both tables occur in the expression"
    for label, obj in universe():
        if not hasattr(obj, "find_") or isinstance(obj, Q_Selectable()):
            continue
        try:
            want = {id(n) for n in obj.nodes_() if isinstance(n, Table)}
            got_ids = {id(n) for n in obj.tables_}
        except Exception:
            continue
        want_s = {str(n) for n in obj.nodes_() if isinstance(n, Table)}
        got_s = {str(n) for n in obj.tables_}
        if not want_s <= got_s:
            return f"{label}.tables_ == {sorted(got_s)}: the tree also contains {sorted(want_s - got_s)}"
    return None


def Q_Selectable():
    from . import Q
    return Q.Selectable


def replace_slot(cls_short, slot):
    """C16: build(T_old).replace_table(T_old, T_new) must not mention T_old any more"""
    from . import Q, Table
    t, u, a = Table("t"), Table("u"), Table("abc", schema="sch", alias="a1")
    new = Table("zz_new")
    for label, obj in _objs_of(cls_short, "replace_table"):
        if not hasattr(obj, "replace_table"):
            continue
        for old in (t, u):
            try:
                r = obj.replace_table(old, new)
                ctx = pk.Query.SQL_CONTEXT.copy(with_namespace=True)
                sql = r.get_sql(ctx) if not isinstance(obj, Q.QueryBuilder) else str(r)
                before = obj.get_sql(ctx) if not isinstance(obj, Q.QueryBuilder) else str(obj)
            except Exception as e:
                return f"{label}.replace_table({old}, {new}) raises {type(e).__name__}: {e}"
            qn = f'"{old._table_name}"'
            if qn in before and qn in sql:
                return f"{label}.replace_table({old._table_name}, zz_new) still mentions {qn}: {sql!r}"
    return None


def rowsource_eq(cls_short=None):
    """C16: replace_table decides with `source == current_table`; for every kind of row source the comparison with a
    table that does not occur must be the bool False, and replace_table(absent, new) must change nothing"""
    from . import QUERY_CLASSES, Table
    a, b, base = Table("a"), Table("b"), Table("base")
    absent, new = Table("zz_absent"), Table("zz_new")
    for qc in QUERY_CLASSES:
        q1, q2 = qc.from_(a).select(a.id), qc.from_(b).select(b.id)
        sources = [("table", a), ("aliased table", a.as_("x")), ("sub-query", q1.as_("s")), ("union", (q1 + q2).as_("u")),
                   ("union all", q1.union_all(q2).as_("u")), ("intersect", q1.intersect(q2).as_("u")),
                   ("cte", pk.AliasedQuery("c", q1))]
        for label, src in sources:
            if cls_short and type(src).__name__ != cls_short.split(".")[-1]:
                continue
            r = src == absent
            if r is not False:
                return f"{qc.__name__}: ({label}) == Table('zz_absent') is {type(r).__name__} {bool(r)!r}, not False"
            if label == "cte":
                continue
            for mk_label, mk in (("from", lambda s: qc.from_(s).select("id")),
                                 ("join", lambda s: qc.from_(base).join(s).on(base.id == s.id).select(base.id))):
                q = mk(src)
                before, after = str(q), str(q.replace_table(absent, new))
                if before != after:
                    return (f"{qc.__name__}: {label} as {mk_label} source: replace_table(zz_absent, zz_new) changed "
                            f"{before!r} into {after!r}")
    return None


def _lex_literal(sql, q="'", mysql=False):
    """reference lexer: one quoted literal spanning all of sql -> decoded text, else None"""
    if len(sql) < 2 or sql[0] != q:
        return None
    out, i = [], 1
    while i < len(sql):
        c = sql[i]
        if mysql and c == "\\" and i + 1 < len(sql):
            out.append(sql[i + 1])
            i += 2
            continue
        if c == q:
            if i + 1 < len(sql) and sql[i + 1] == q:
                out.append(q)
                i += 2
                continue
            return "".join(out) if i == len(sql) - 1 else None
        out.append(c)
        i += 1
    return None


def fn_coalesce(a, b):
    from . import fn
    return fn.Coalesce(a, b)


def literal_roundtrip(cls_short, kind):
    """C05: adversarial values of a kind, in several positions, lex as one literal that decodes to the value"""
    import datetime
    import decimal
    import json
    import uuid
    from . import Table, ValueWrapper
    t = Table("t")
    strs = ["it's", "a\\", "a\\'b", "x'; DROP TABLE t; --", "%s ? $1", "multi\nline", "nul\x00", "ünï", "''", "\\\\"]
    for qc in QUERY_CLASSES:
        mysql = qc.SQL_CONTEXT.dialect.name == "MYSQL"
        for s_ in strs:
            for label, build in (("where", lambda v: qc.from_(t).select("*").where(t.a == v)),
                                 ("insert", lambda v: qc.into(t).insert(v)),
                                 ("set", lambda v: qc.update(t).set(t.a, v)),
                                 ("function argument", lambda v: qc.from_(t).select(fn_coalesce(t.a, v)))):
                v = s_ if kind == "str" else ({"k": s_} if kind == "dict" else ([s_] if kind == "list" else None))
                if v is None:
                    continue
                # dict / list values are literals only inside a constant wrapper (a bare list is an ARRAY constructor)
                arg = v if kind == "str" else qc._builder()._wrapper_cls(v)
                if kind != "str" and label == "insert":
                    continue
                sql = str(build(arg))
                want = v if kind == "str" else json.dumps(v)
                # locate the literal: it starts at the first quote of the value position
                i = sql.find("'")
                tail = sql[i:]
                j = len(tail)
                ok = False
                while j > 1:
                    dec = _lex_literal(tail[:j], "'", mysql)
                    if dec is not None:
                        ok = dec == want
                        break
                    j -= 1
                if not ok:
                    return f"{qc.__name__} {label} position, value {v!r}: rendered {sql!r}; the literal does not decode to the value"
    return None


def json_term():
    from . import JSON
    v = {"a": 'it\'s "q"'}
    sql = str(JSON(v))
    dec = _lex_literal(sql, "'", False)
    import json
    try:
        ok = dec is not None and json.loads(dec) == v
    except Exception:
        ok = False
    if not ok:
        return f"JSON({v!r}) renders {sql!r}: not one literal that decodes to the value"
    return None


def column_default():
    from . import Q
    for v in ([1, 2, 3], ["a", "b"], []):
        sql = str(Q.Column("c", "JSON", default=v))
        tail = sql.split("DEFAULT ", 1)[1]
        if _lex_literal(tail, "'", False) is None:
            return f"Column('c', 'JSON', default={v!r}) renders {sql!r}: the default is not one literal"
    # strings that look like SQL (keywords, function calls, NULL, quotes) are values too: one quoted literal that
    # decodes to the string
    for v in ("current_timestamp", "CURRENT_DATE", " localtime ", "NULL", "now()", "TRUE", "it's", "a\\b", "DEFAULT",
              "CURRENT_USER", "1", ""):
        sql = str(Q.Column("c", "VARCHAR(40)", default=v))
        tail = sql.split("DEFAULT ", 1)[1] if "DEFAULT " in sql else ""
        if _lex_literal(tail, "'", False) != v:
            return f"Column('c', 'VARCHAR(40)', default={v!r}) renders {sql!r}: the default is not one literal that decodes to the value"
    return None


def identifier_quote_char():
    from . import Table
    t = Table('we"ird')
    sql = str(pk.Query.from_(t).select(t.a))
    if '"we""ird"' not in sql:
        return f"Table('we\"ird') renders {sql!r}: the embedded quote character is not doubled, the identifier ends early"
    return None


def identifier_site(func_short, cls_short, key):
    from . import Q, Table, fn
    t = Table("t")
    if "_with" in key or "AliasedQuery" in func_short or key == "self.name":
        q = pk.Query.with_(pk.Query.from_(t).select(t.a), "my cte").from_(Q.AliasedQuery("my cte")).select("*")
        sql = str(q)
        if 'WITH my cte AS' in sql or 'FROM my cte' in sql:
            return f"CTE named 'my cte' renders {sql!r}: the name is emitted without identifier quotes"
    if key == "{":
        from . import MySQLQuery
        try:
            q = MySQLQuery.into(t).insert(1).as_("new{row}").on_conflict().do_update("a")
            sql = str(q)
            if "`new{row}`.`a`" not in sql:
                return f"alias 'new{{row}}' renders {sql!r}"
        except Exception as e:
            return f"alias 'new{{row}}' raises {type(e).__name__}: {e}"
    return None


def roundtrip(cls_short):
    """C15: copy / deepcopy / pickle of universe objects render identically"""
    from . import Q, Table
    objs = universe() + [("db_table", Table("x", schema=Q.Database("d").s)), ("db_field", Table("x", schema=Q.Database("d").s).f),
                         ("database", Q.Database("d")), ("schema", Q.Schema("s"))]
    for label, obj in objs:
        base = render_all(obj)
        mechs = [("copy", copy.copy), ("deepcopy", copy.deepcopy)] + \
            [(f"pickle[protocol {p}]", (lambda o, p=p: pickle.loads(pickle.dumps(o, p)))) for p in range(pickle.HIGHEST_PROTOCOL + 1)]
        for mech, f in mechs:
            try:
                d = f(obj)
            except Exception as e:
                return f"{mech}({label}) raises {type(e).__name__}: {e}"
            got = _noaddr(render_all(d))
            if got != _noaddr(base):
                return f"{mech}({label}) renders differently: {_diff(_noaddr(base), got)}"
    return None


def _noaddr(res):
    import re
    return {k: re.sub(r" at 0x[0-9a-f]+", "", repr(v)) for k, v in res.items()}


def _expect(cases):
    for label, thunk, exc in cases:
        try:
            thunk()
            got = None
        except Exception as e:
            got = type(e).__name__
        if got != exc:
            return f"{label}: expected {exc or 'no exception'}, got {got or 'no exception'}"
    return None


def guards(fshort):
    """C14: both directions of the exceptional postcondition of one guarded function, on concrete programs"""
    from . import Q, Table, Case, an, PostgreSQLQuery, pk
    from pypika_tortoise.terms import EmptyCriterion
    Query = pk.Query
    t, u = Table("t"), Table("u")
    c = t.a == 1
    ins = lambda: Query.into(t).insert(1)
    sel = lambda: Query.from_(t).select(t.a)
    win = lambda: an.Sum(t.a).over(t.b)
    S = {
        "terms.Case.get_sql": [("CASE without WHEN", lambda: str(Case()), "CaseException"),
                               ("CASE with WHEN", lambda: str(Case().when(c, 2)), None)],
        "queries.QueryBuilder.on_conflict": [("on_conflict on SELECT", lambda: sel().on_conflict("id"), "QueryException"),
                                             ("on_conflict on INSERT", lambda: ins().on_conflict("id"), None)],
        "queries.QueryBuilder.do_update": [
            ("do_update after do_nothing", lambda: ins().on_conflict("id").do_nothing().do_update("a", 1), "QueryException"),
            ("do_update(5)", lambda: ins().on_conflict("id").do_update(5, 1), "QueryException"),
            ("do_update", lambda: ins().on_conflict("id").do_update("a", 1), None),
            ("do_update(Field)", lambda: ins().on_conflict("id").do_update(t.a, 1), None)],
        "queries.QueryBuilder.do_nothing": [
            ("do_nothing after do_update", lambda: ins().on_conflict("id").do_update("a", 1).do_nothing(), "QueryException"),
            ("do_nothing", lambda: ins().on_conflict("id").do_nothing(), None)],
        "queries.QueryBuilder.where": [
            ("where after do_nothing", lambda: ins().on_conflict("id").do_nothing().where(c), "QueryException"),
            ("where after fieldless on_conflict", lambda: ins().on_conflict().where(c), "QueryException"),
            ("where after on_conflict(id)", lambda: ins().on_conflict("id").where(c), None),
            ("where after do_update", lambda: ins().on_conflict("id").do_update("a", 1).where(c), None),
            ("empty criterion after do_nothing", lambda: ins().on_conflict("id").do_nothing().where(EmptyCriterion()), None),
            ("where on select", lambda: sel().where(c), None)],
        "queries.QueryBuilder._on_conflict_sql": [
            ("on_conflict(id) without handler", lambda: str(ins().on_conflict("id")), "QueryException"),
            ("fieldless do_update", lambda: str(ins().on_conflict().do_update("a", 1)), "QueryException"),
            ("do_nothing", lambda: str(ins().on_conflict("id").do_nothing()), None),
            ("fieldless do_nothing", lambda: str(ins().on_conflict().do_nothing()), None),
            ("no conflict clause", lambda: str(ins()), None)],
        "queries.QueryBuilder.into": [("into twice", lambda: Query.into(t).into(u), "AttributeError"),
                                      ("into", lambda: Query.into(t), None), ("select into", lambda: sel().into(u), None)],
        "queries.QueryBuilder.update": [("update twice", lambda: Query.update(t).update(u), "AttributeError"),
                                        ("update after select", lambda: sel().update(t), "AttributeError"),
                                        ("update after delete", lambda: Query.from_(t).delete().update(t), "AttributeError"),
                                        ("update", lambda: Query.update(t), None)],
        "queries.QueryBuilder.delete": [("delete twice", lambda: Query.from_(t).delete().delete(), "AttributeError"),
                                        ("delete after select", lambda: sel().delete(), "AttributeError"),
                                        ("delete after update", lambda: Query.update(t).delete(), "AttributeError"),
                                        ("delete", lambda: Query.from_(t).delete(), None)],
        "queries.QueryBuilder.columns": [("columns without into", lambda: sel().columns("a"), "AttributeError"),
                                         ("columns", lambda: Query.into(t).columns("a"), None)],
        "queries.QueryBuilder.insert": [("insert without into", lambda: sel().insert(1), "AttributeError"),
                                        ("insert", lambda: Query.into(t).insert(1), None)],
        "queries.QueryBuilder.replace": [("replace without into", lambda: sel().replace(1), "AttributeError"),
                                         ("replace", lambda: Query.into(t).replace(1), None)],
        "queries.QueryBuilder.rollup": [
            ("mysql rollup without groups", lambda: sel().rollup(vendor="mysql"), "RollupException"),
            ("mysql rollup twice", lambda: sel().groupby(t.a).rollup(vendor="mysql").rollup(vendor="mysql"), "AttributeError"),
            ("rollup after mysql rollup", lambda: sel().groupby(t.a).rollup(vendor="mysql").rollup(t.b), "AttributeError"),
            ("mysql rollup with groupby", lambda: sel().groupby(t.a).rollup(vendor="mysql"), None),
            ("mysql rollup with terms", lambda: sel().rollup(t.a, vendor="mysql"), None),
            ("rollup", lambda: sel().rollup(t.a), None), ("empty rollup", lambda: sel().rollup(), None)],
        "queries.Table.for_": [("for_ twice", lambda: t.for_(c).for_(c), "AttributeError"),
                               ("for_ after for_portion", lambda: t.for_portion(t.p.from_to(1, 2)).for_(c), "AttributeError"),
                               ("for_", lambda: t.for_(c), None)],
        "queries.Table.for_portion": [("for_portion twice", lambda: t.for_portion(t.p.from_to(1, 2)).for_portion(t.p.from_to(1, 2)), "AttributeError"),
                                      ("for_portion after for_", lambda: t.for_(c).for_portion(t.p.from_to(1, 2)), "AttributeError"),
                                      ("for_portion", lambda: t.for_portion(t.p.from_to(1, 2)), None)],
        "queries.CreateQueryBuilder.create_table": [("create_table twice", lambda: Query.create_table("a").create_table("b"), "AttributeError"),
                                                    ("create_table", lambda: Query.create_table("a"), None)],
        "queries.CreateQueryBuilder.columns": [("columns after as_select", lambda: Query.create_table("a").as_select(sel()).columns(Q.Column("x", "INT")), "AttributeError"),
                                               ("columns", lambda: Query.create_table("a").columns(Q.Column("x", "INT")), None)],
        "queries.CreateQueryBuilder.primary_key": [("primary_key twice", lambda: Query.create_table("a").primary_key("x").primary_key("y"), "AttributeError"),
                                                   ("primary_key", lambda: Query.create_table("a").primary_key("x"), None)],
        "queries.CreateQueryBuilder.as_select": [("as_select after columns", lambda: Query.create_table("a").columns(Q.Column("x", "INT")).as_select(sel()), "AttributeError"),
                                                 ("as_select(str)", lambda: Query.create_table("a").as_select("x"), "TypeError"),
                                                 ("as_select", lambda: Query.create_table("a").as_select(sel()), None)],
        "queries.DropQueryBuilder.drop_table": [("drop_table twice", lambda: Query.drop_table("a").drop_table("b"), "AttributeError"),
                                                ("drop_table", lambda: Query.drop_table("a"), None)],
        "terms.WindowFrameAnalyticFunction.rows": [("rows twice", lambda: win().rows(an.Preceding(1)).rows(an.Preceding(2)), "AttributeError"),
                                                   ("rows after range", lambda: win().range(an.Preceding(1)).rows(an.Preceding(2)), "AttributeError"),
                                                   ("rows", lambda: win().rows(an.Preceding(1)), None)],
        "terms.WindowFrameAnalyticFunction.range": [("range twice", lambda: win().range(an.Preceding(1)).range(an.Preceding(2)), "AttributeError"),
                                                    ("range", lambda: win().range(an.Preceding(1)), None)],
        "queries.Joiner.on": [("on(None)", lambda: sel().join(u).on(None), "JoinException"),
                              ("on", lambda: sel().join(u).on(t.a == u.a), None)],
        "queries.Joiner.on_field": [("on_field()", lambda: sel().join(u).on_field(), "JoinException"),
                                    ("on_field", lambda: sel().join(u).on_field("a"), None)],
        "queries.Joiner.using": [("using()", lambda: sel().join(u).using(), "JoinException"),
                                 ("using", lambda: sel().join(u).using("a"), None)],
        "dialects.postgresql.PostgreSQLQueryBuilder._return_field_str": [
            ("returning(str) on SELECT", lambda: PostgreSQLQuery.from_(t).select(t.a).returning("id"), "QueryException"),
            ("returning(*) on SELECT", lambda: PostgreSQLQuery.from_(t).select(t.a).returning("*"), "QueryException"),
            ("returning(1) on SELECT", lambda: PostgreSQLQuery.from_(t).select(t.a).returning(1), "QueryException"),
            ("returning on INSERT", lambda: PostgreSQLQuery.into(t).insert(1).returning("id"), None),
            ("returning on UPDATE", lambda: PostgreSQLQuery.update(t).set("a", 1).returning("id", "*"), None),
            ("returning on DELETE", lambda: PostgreSQLQuery.from_(t).delete().returning("id"), None)],
    }
    if fshort not in S:
        return None
    return _expect(S[fshort])


def join_validation():
    """C14: a join criterion over unavailable tables is rejected, one over available sources never is"""
    from . import Q, Table, pk, fn
    Query = pk.Query
    t, u, v = Table("t"), Table("u"), Table("v")
    ta = Table("t", alias="x")
    st = Table("t", schema="s")
    sub = Query.from_(v).select(v.a).as_("sq")
    cte = Q.AliasedQuery("c1")
    cases = [
        ("foreign table in ON", lambda: Query.from_(t).join(u).on(t.a == v.a), "JoinException"),
        ("foreign table on the left", lambda: Query.from_(t).join(u).on(v.a == t.a), "JoinException"),
        ("foreign table inside a function", lambda: Query.from_(t).join(u).on(fn.Lower(v.a) == u.a), "JoinException"),
        ("same name other schema", lambda: Query.from_(t).join(u).on(st.a == u.a), "JoinException"),
        ("from and joined", lambda: Query.from_(t).join(u).on(t.a == u.a), None),
        ("aliased", lambda: Query.from_(ta).join(u).on(ta.a == u.a), None),
        ("schema", lambda: Query.from_(st).join(u).on(st.a == u.a), None),
        ("subquery", lambda: Query.from_(t).join(sub).on(t.a == sub.a), None),
        ("earlier join", lambda: Query.from_(t).join(u).on(t.a == u.a).join(v).on(u.b == v.b), None),
        ("declared cte", lambda: Query.with_(Query.from_(v).select(v.a), "c1").from_(t).join(u).on(u.a == cte.a), None),
        ("cte in from", lambda: Query.with_(Query.from_(v).select(v.a), "c1").from_(cte).join(u).on(u.a == cte.a), None),
        ("update join", lambda: Query.update(t).join(u).on(t.a == u.a), None),
        ("function operands", lambda: Query.from_(t).join(u).on(fn.Lower(t.a) == fn.Upper(u.a)), None),
    ]
    return _expect(cases)


def setop_arity():
    """C14: set operations over select lists of different lengths raise at render, equal lengths never do"""
    from . import Table, pk
    Query = pk.Query
    t, u = Table("t"), Table("u")
    q1, q2, q3 = Query.from_(t).select(t.a), Query.from_(u).select(u.a, u.b), Query.from_(u).select(u.c)
    cases = [("union 1 vs 2", lambda: str(q1.union(q2)), "SetOperationException"),
             ("union 1,1,2", lambda: str(q1.union(q3).union_all(q2)), "SetOperationException"),
             ("intersect 2 vs 1", lambda: str(q2.intersect(q1)), "SetOperationException"),
             ("union 1 vs 1", lambda: str(q1.union(q3)), None),
             ("minus 1,1,1", lambda: str(q1.minus(q3).except_of(q1)), None)]
    return _expect(cases)


# ---------------------------------------------------------------------------------------------- C06
def _c06_eval(node):
    """value of an expression tree built through the public API, with SQLite's semantics on integers
    (raises ZeroDivisionError / returns None for NULL)"""
    from pypika_tortoise import terms as T
    from pypika_tortoise.enums import Arithmetic, Boolean, Equality
    if isinstance(node, T.ValueWrapper):
        return node.value
    if isinstance(node, T.Negative):
        return -_c06_eval(node.term)
    if isinstance(node, T.Not):
        return int(not _c06_eval(node.term))
    if isinstance(node, T.ArithmeticExpression):
        a, b = _c06_eval(node.left), _c06_eval(node.right)
        op = node.operator
        if op == Arithmetic.add:
            return a + b
        if op == Arithmetic.sub:
            return a - b
        if op == Arithmetic.mul:
            return a * b
        q = abs(a) // abs(b)
        return q if (a >= 0) == (b >= 0) else -q
    if isinstance(node, T.NestedCriterion):
        a, b, n = _c06_eval(node.left), _c06_eval(node.right), bool(_c06_eval(node.nested))
        c = {Equality.eq: a == b, Equality.lt: a < b}[node.comparator]
        return int({Boolean.and_: c and n, Boolean.or_: c or n}[node.nested_comparator])
    if isinstance(node, T.ComplexCriterion):
        a, b = bool(_c06_eval(node.left)), bool(_c06_eval(node.right))
        return int({Boolean.and_: a and b, Boolean.or_: a or b, Boolean.xor_: a != b}[node.comparator])
    if isinstance(node, T.BetweenCriterion):
        return int(_c06_eval(node.start) <= _c06_eval(node.term) <= _c06_eval(node.end))
    if isinstance(node, T.ContainsCriterion):
        r = _c06_eval(node.term) in [_c06_eval(v) for v in node.container.values]
        return int(r != node._is_negated)
    if isinstance(node, T.NullCriterion):
        return 0
    if isinstance(node, T.BasicCriterion):
        a, b = _c06_eval(node.left), _c06_eval(node.right)
        return int({Equality.eq: a == b, Equality.ne: a != b, Equality.gt: a > b, Equality.gte: a >= b,
                    Equality.lt: a < b, Equality.lte: a <= b}[node.comparator])
    raise TypeError(type(node).__name__)


def _c06_pool():
    from pypika_tortoise import terms as T
    V = T.ValueWrapper
    a, b, c, d = V(7), V(3), V(2), V(5)
    return [("lit", a), ("neglit", V(-4)), ("add", a + b), ("sub", a - b), ("mul", b * c), ("div", a / c),
            ("neg", -b), ("negsum", -(a + c)), ("sub-mul", a - b * c), ("mul-sub", b * c - d), ("div-add", a / c + b),
            ("add-div", d + a / c), ("eq", a == b), ("lt", b < a), ("and", (a == a) & (b == c)),
            ("or", (a == b) | (c == c)), ("xor", T.ComplexCriterion(__import__("pypika_tortoise").enums.Boolean.xor_, a == a, b == b)),
            ("nested-or", T.NestedCriterion(__import__("pypika_tortoise").enums.Equality.eq,
                                            __import__("pypika_tortoise").enums.Boolean.or_, a, b, c == c)),
            ("not", T.Not(a == b)), ("between", b.between(c, d)), ("in", b.isin([1, 3])), ("notin", b.notin([1, 3]))]


def _c06_check(label, tree):
    import sqlite3
    from . import SQLLiteQuery
    try:
        want = _c06_eval(tree)
    except ZeroDivisionError:
        return None
    sql = tree.get_sql(SQLLiteQuery.SQL_CONTEXT)
    # SQLite has no XOR operator: evaluate it as <> on truth values, which has comparison precedence - skip those
    if " XOR " in sql:
        return None
    try:
        got = sqlite3.connect(":memory:").execute("SELECT " + sql).fetchone()[0]
    except sqlite3.Error as e:
        return f"{label}: {sql!r} is rejected by SQLite ({e})"
    if got is None:
        return None
    if got != want:
        return f"{label}: built value {want} but the rendering {sql!r} evaluates to {got}"
    return None


def grouping(cls_short, slot=None):
    """C06: trees with one parent of the given class over the operand pool, evaluated by SQLite vs the built tree"""
    from pypika_tortoise import terms as T
    from pypika_tortoise.enums import Arithmetic, Boolean, Equality
    pool = _c06_pool()
    name = cls_short.split(".")[-1]
    V = T.ValueWrapper
    makers = {
        "ArithmeticExpression": [(op.name, lambda x, y, op=op: T.ArithmeticExpression(op, x, y)) for op in Arithmetic],
        "BasicCriterion": [(op.name, lambda x, y, op=op: T.BasicCriterion(op, x, y)) for op in (Equality.eq, Equality.lt, Equality.ne)],
        "ComplexCriterion": [(op.name, lambda x, y, op=op: T.ComplexCriterion(op, x, y)) for op in (Boolean.and_, Boolean.or_)],
        "Negative": [("neg", lambda x, y: T.Negative(x))],
        "Not": [("not", lambda x, y: T.Not(x))],
        "NullCriterion": [("isnull", lambda x, y: T.NullCriterion(x))],
        "ContainsCriterion": [("in", lambda x, y: T.ContainsCriterion(x, T.Tuple(1, 0, 3)))],
        "BetweenCriterion": [("between", lambda x, y: T.BetweenCriterion(V(1), x, y)), ("between-term", lambda x, y: T.BetweenCriterion(x, V(0), y))],
    }
    textual = {
        "NestedCriterion": lambda x: T.NestedCriterion(Equality.eq, Boolean.and_, x, V(1), V(1) == V(1)),
        "PeriodCriterion": lambda x: T.PeriodCriterion(V(1), x, V(2)),
        "All": lambda x: T.All(x),
    }
    if name in textual:
        # no SQLite semantics for this construct: show the operand printed bare next to the parent's operator
        from . import SQLLiteQuery
        for lbl, x in pool:
            if lbl not in ("or", "eq", "not"):
                continue
            child = x.get_sql(SQLLiteQuery.SQL_CONTEXT)
            sql = textual[name](x).get_sql(SQLLiteQuery.SQL_CONTEXT)
            if child in sql and "(" + child + ")" not in sql:
                return f"{name} over the operand {child!r} renders {sql!r}: the operand is not bracketed"
        return None
    if name not in makers:
        return None
    for mlabel, mk in makers[name]:
        for la, x in pool:
            for lb, y in pool:
                try:
                    tree = mk(x, y)
                except Exception:
                    continue
                w = _c06_check(f"{name}[{mlabel}]({la}, {lb})", tree)
                if w:
                    return w
    return None


def grouping_arith(parent, child, side):
    from pypika_tortoise import terms as T
    from pypika_tortoise.enums import Arithmetic
    V = T.ValueWrapper
    for x, y, z in ((7, 3, 2), (9, 4, 5), (20, 6, 4), (5, 8, 3)):
        inner = T.ArithmeticExpression(Arithmetic[child], V(y), V(z))
        tree = T.ArithmeticExpression(Arithmetic[parent], inner, V(x)) if side == "left" else \
            T.ArithmeticExpression(Arithmetic[parent], V(x), inner)
        w = _c06_check(f"{parent}({child}) on the {side}", tree)
        if w:
            return w
    return None


def embedding_text(cls_short):
    """C10: the text of a statement embedded as a sub-query is its stand-alone text in brackets (or the same text for
    statements that ignore the flag); with the alias requested it is the stand-alone text plus the alias"""
    from . import PostgreSQLQuery, Table, queries_universe
    t = Table("t")
    extra = [("pg.delete_returning", PostgreSQLQuery.from_(t).delete().where(t.a == 1).returning(t.id)),
             ("pg.insert_returning", PostgreSQLQuery.into(t).insert(1).returning("*")),
             ("pg.insert_select_conflict", PostgreSQLQuery.into(t).from_(Table("u")).select("a").on_conflict("a").do_nothing())]
    name = cls_short.split(".")[-1]
    for label, q in queries_universe() + extra:
        if type(q).__name__ != name:
            continue
        qc = vars(q).get("base_query", q)
        qc = getattr(type(qc), "QUERY_CLS", None)
        if qc is None:
            continue
        ctx0 = qc.SQL_CONTEXT
        try:
            plain = q.get_sql(ctx0.copy(subquery=False, with_alias=False))
            sub = q.get_sql(ctx0.copy(subquery=True, with_alias=False))
        except Exception:
            continue
        if plain and sub not in (plain, "(" + plain + ")"):
            return f"{label}: stand-alone {plain!r}, embedded as a sub-query {sub!r}"
        q2 = q.as_("zz") if hasattr(q, "as_") else q
        try:
            plain = q2.get_sql(ctx0.copy(subquery=True, with_alias=False))
            ali = q2.get_sql(ctx0.copy(subquery=True, with_alias=True))
        except Exception:
            continue
        if plain and not (ali == plain or (ali.startswith(plain) and ali[len(plain):].strip(' "`') in ("zz", "AS zz", 'AS "zz'))):
            return f"{label}: without alias {plain!r}, with alias {ali!r}"
    return None


# ------------------------------------------------------------------------------ remaining witness searches
def dialect_nesting(*_args):
    """C08: rendered under a context with unusual quote characters, no part of the text may show the default quote"""
    from . import pk
    ctx = pk.Query.SQL_CONTEXT.copy(quote_char="`", alias_quote_char="`", secondary_quote_char="'")
    for label, obj in universe():
        if not hasattr(obj, "get_sql") or "json" in label:
            continue
        try:
            sql = obj.get_sql(ctx)
        except Exception:
            continue
        if '"' in sql:
            return f"{label} rendered under a context with quote_char=` contains a double quote: {sql!r}"
    return None


def ctx_copy(*_args):
    from pypika_tortoise.context import DEFAULT_SQL_CONTEXT as D
    import dataclasses
    fields = [f.name for f in dataclasses.fields(D)]
    for f in fields:
        new = "XX" if not isinstance(getattr(D, f), bool) else (not getattr(D, f))
        c = D.copy(**{f: new})
        for g in fields:
            want = new if g == f else getattr(D, g)
            if getattr(c, g) != want:
                return f"SqlContext.copy({f}={new!r}).{g} == {getattr(c, g)!r}, expected {want!r}"
    return None


def groupby_convention(cls_short):
    from . import MSSQLQuery, OracleQuery, Table, pk
    t = Table("t")
    for qc in (MSSQLQuery, OracleQuery):
        if cls_short and qc.__name__.replace("Query", "").lower() not in cls_short.lower():
            continue
        q = qc.from_(t).select((t.a + 1).as_("x")).groupby((t.a + 1).as_("x"))
        for label, ctx in (("own context", None), ("generic context", pk.Query.SQL_CONTEXT),
                           ("context with groupby_alias=True", qc.SQL_CONTEXT.copy(groupby_alias=True))):
            sql = q.get_sql(ctx) if ctx is not None else q.get_sql()
            if 'GROUP BY "x"' in sql or "GROUP BY `x`" in sql:
                return f"{qc.__name__} under {label} groups by the select alias: {sql!r}"
    return None


def embedding_leak(func_short=None, cls_short=None, rk=None, flag=None):
    """C10: the text of a statement embedded in FROM of a query with joins contains its stand-alone text"""
    from . import Table, pk, queries_universe
    z = Table("zz")
    for label, q in queries_universe():
        qc = getattr(type(vars(q).get("base_query", q)), "QUERY_CLS", None)
        if qc is None or not hasattr(q, "as_") or "." not in label:
            continue
        if any(k in label for k in ("insert", "update", "delete", "upsert", "empty", "create", "drop", "load")):
            continue
        try:
            alone = q.get_sql(qc.SQL_CONTEXT.copy(subquery=True))
            outer = qc.from_(q.as_("e1")).join(z).on(z.k == 1).select("*").get_sql()
        except Exception:
            continue
        if alone and alone not in outer:
            return f"{label}: stand-alone (bracketed) text {alone!r} does not occur in the embedding {outer!r}"
    return None


def eq_laws(cls_short=None):
    from . import Q, Table, pk
    objs = [Table("a"), Table("a"), Table("a", alias="x"), Table("a", schema="s"), Table("a", schema="s"),
            Table("a", schema=["d", "s"]), Table("a", schema=Q.Schema("s", parent=Q.Schema("d"))),
            Q.Schema("s"), Q.Schema("s", parent=Q.Schema("d")), Q.Schema("s", parent=Q.Schema("e")),
            Table("a").for_(Table("a").v == 1), Q.AliasedQuery("q"), Q.AliasedQuery("q"),
            pk.Query.from_(Table("a")).select("x"), pk.Query.from_(Table("a")).select("x").as_("al")]
    for x in objs:
        if not (x == x):
            return f"{x!r} != itself"
        for y in objs:
            try:
                if (x == y) != (y == x):
                    return f"== is not symmetric on {x!r}, {y!r}"
                if (x == y) is True and hash(x) != hash(y):
                    return f"{x!r} == {y!r} but their hashes differ"
                if (x != y) == (x == y) and isinstance(x == y, bool):
                    return f"!= is not the negation of == on {x!r}, {y!r}"
            except TypeError:
                continue
    return None


def field_qualification(cls_short=None):
    from . import Field, Table, pk
    from pypika_tortoise.terms import Star
    t, a = Table("t"), Table("t", alias="al")
    base = pk.Query.SQL_CONTEXT
    for tbl, ns, want_q in ((t, False, None), (t, True, "t"), (a, False, "al"), (a, True, "al"), (None, True, None)):
        for mk, tail in ((lambda: Field("c", table=tbl), '"c"'), (lambda: Star(tbl), "*")):
            sql = mk().get_sql(base.copy(with_namespace=ns))
            want = (f'"{want_q}".' if want_q else "") + tail
            if sql != want:
                return f"{'Field' if tail != '*' else 'Star'} of table {tbl!r} with_namespace={ns} renders {sql!r}, expected {want!r}"
    return None


def qualifier_name(cls_short=None):
    from . import Table, pk
    cases = [(Table("t"), "t"), (Table("t", alias="x"), "x"), (pk.Query.from_(Table("t")).select("a").as_("sq"), "sq")]
    for obj, want in cases:
        if obj.get_table_name() != want:
            return f"{obj!r}.get_table_name() == {obj.get_table_name()!r}, expected {want!r}"
    return None


def name_store(cls_short=None):
    """C07: names containing dots, spaces, brackets are stored and rendered as one identifier"""
    from . import Field, Index, Q, Table, pk
    for nm in ("id", "ab", "T1", "x"):
        tb = pk.Query.Tables(nm)[0] if hasattr(pk.Query, "Tables") else Q.make_tables(nm)[0]
        sql = tb.get_sql(pk.Query.SQL_CONTEXT.copy(with_alias=True))
        if sql != f'"{nm}"':
            return f"Query.Tables({nm!r}) renders {sql!r}: the name is not one identifier"
    for nm in ("my.db", "a b", "x(y)", "UPPER lower", " lead", "*", "?", "%s"):
        cases = [("table", Table(nm)), ("schema", Table("t", schema=nm)), ("schema list", Table("t", schema=[nm, "s2"])),
                 ("field", Field(nm)), ("alias", Table("t").as_(nm)), ("index", Index(nm)), ("column", Q.Column(nm, "INT")),
                 ("database", Table("t", schema=Q.Database(nm).s))]
        for label, obj in cases:
            try:
                sql = obj.get_sql(pk.Query.SQL_CONTEXT.copy(with_alias=True, with_namespace=True))
            except Exception as e:
                return f"{label} named {nm!r} raises {type(e).__name__}"
            if f'"{nm}"' not in sql:
                return f"{label} named {nm!r} renders {sql!r}: the name is not one quoted identifier"
    return None


def commute(cls_short, m, slot, writers):
    """C13: q.m(a).w(b) and q.w(b).m(a) render differently (or one raises) for a method w of another clause"""
    from . import Table, arg_candidates, pk, fn
    import pypika_tortoise.dialects as D
    qmap = {"QueryBuilder": pk.Query, "MySQLQueryBuilder": D.MySQLQuery, "PostgreSQLQueryBuilder": D.PostgreSQLQuery,
            "SQLLiteQueryBuilder": D.SQLLiteQuery, "MSSQLQueryBuilder": D.MSSQLQuery, "OracleQueryBuilder": D.OracleQuery}
    qc = qmap.get(cls_short.split(".")[-1])
    if qc is None or not m:
        return None
    t, u, w_ = Table("t"), Table("u"), Table("w")
    outer = Table("outer_t")
    bases = [("empty", qc._builder()), ("from", qc.from_(t)), ("select", qc.from_(t).select(t.a)),
             ("into", qc.into(t)), ("insert", qc.into(t).insert(1)), ("update", qc.update(t)),
             ("select-alias", qc.from_(t).select(t.id, fn.Sum(t.x).as_("total"))),
             ("select-constant", qc._builder().select(1)),
             ("from-join", qc.from_(t).join(u).on(t.id == u.id).select(t.id))]
    cands, _kw = arg_candidates()
    cands = [(), ("total",), (fn.Sum(u.x).as_("total"),), ("n1",), (Table("abc", alias="x1"),), ("n1", 1), (t.foo,), (t.foo == 1,), (outer.k == t.k,), (t,), (u,), (1,),
             (pk.Query.from_(w_).select(w_.x),), (t.foo, 1), ("n1", 1), (u.foo,)] + cands

    def outcome(thunk):
        try:
            q = thunk()
            if hasattr(q, "cross") and not hasattr(q, "get_sql"):
                q = q.cross()        # a pending join: complete it the same way in both orders
            return ("ok", str(q))
        except Exception as e:
            return ("raise", type(e).__name__)
    small = cands[:16]
    # the two calls may leave the builder incomplete (it renders ''): the same completion is applied after both
    # orders, so that a difference in the state (e.g. the foreign-table flag) becomes a difference in the text
    completions = [("", lambda q: q),
                   (".set('y', 2)", lambda q: q.set("y", 2)),
                   (".where(t.foo == 1).set('y', 2)", lambda q: q.where(t.foo == 1).set("y", 2)),
                   (".select('z')", lambda q: q.select("z")),
                   (".insert(1)", lambda q: q.insert(1)),
                   (".on_conflict('id').insert(1)", lambda q: q.on_conflict("id").insert(1))]
    for wname in writers:
        for blabel, base in bases:
            if not hasattr(base, wname) or not hasattr(base, m):
                continue
            for a1 in small:
                for a2 in small:
                    for clabel, comp in completions:
                        o1 = outcome(lambda: comp(getattr(getattr(base, m)(*a1), wname)(*a2)))
                        o2 = outcome(lambda: comp(getattr(getattr(base, wname)(*a2), m)(*a1)))
                        if o1 != o2 and not (o1[0] == o2[0] == "raise"):
                            return (f"on the {blabel} builder, .{m}{a1!r}.{wname}{a2!r}{clabel} gives {o1[1]!r} but "
                                    f".{wname}{a2!r}.{m}{a1!r}{clabel} gives {o2[1]!r}")
                        if o1[0] == "raise" and not clabel:
                            break       # both orders reject the two calls: no completion applies
    return None


def alias_reference(cls_short=None):
    """C12: GROUP BY / ORDER BY refer to an alias only when the select list of the same statement defines it"""
    import re
    from . import QUERY_CLASSES, Table, fn
    t = Table("abc")
    for qc in QUERY_CLASSES:
        x = t.foo.as_("x")
        progs = [("alias dropped by a later star", lambda: qc.from_(t).select(x, t.star).orderby(x)),
                 ("alias dropped by a later star (group)", lambda: qc.from_(t).select(x, t.star).groupby(x)),
                 ("alias never selected", lambda: qc.from_(t).select(t.bar).orderby(x)),
                 ("alias never selected (group)", lambda: qc.from_(t).select(t.bar).groupby(x)),
                 ("function alias never selected", lambda: qc.from_(t).select(t.bar).orderby(fn.Lower(t.foo).as_("lo")))]
        for label, mk in progs:
            sql = str(mk())
            head, _, tail = sql.partition(" FROM ")
            for m in re.finditer(r'(?:ORDER BY|GROUP BY) ["`]?(\w+)["`]?(?:$|[ ,])', tail):
                nm = m.group(1)
                if nm in ("x", "lo") and not re.search(r'["`]' + nm + r'["`]', head):
                    return f"{qc.__name__}: {label}: {sql!r} refers to the alias {nm!r} which the select list does not define"
    return None


def returning_foreign():
    """C14: RETURNING a term that mentions a table which is neither the target nor a source is rejected; terms over
    the target / the sources are accepted"""
    from . import PostgreSQLQuery, Table
    abc, other, src = Table("abc"), Table("other"), Table("src")
    cases = [
        ("foreign field", lambda: PostgreSQLQuery.into(abc).insert(1).returning(other.id), "QueryException"),
        ("target + foreign in one term", lambda: PostgreSQLQuery.into(abc).insert(1).returning(abc.id + other.id), "QueryException"),
        ("update: target + foreign", lambda: PostgreSQLQuery.update(abc).set("a", 1).returning(abc.id + other.id), "QueryException"),
        ("update from: source is fine", lambda: PostgreSQLQuery.update(abc).from_(src).set("a", src.a).returning(abc.id + src.id), None),
        ("target", lambda: PostgreSQLQuery.into(abc).insert(1).returning(abc.id + 1), None),
        ("delete target", lambda: PostgreSQLQuery.from_(abc).delete().returning(abc.id), None),
    ]
    return _expect(cases)


def should_parameterize():
    """C04: enum members (also str-mixin ones) and the lone '*' stay inline; everything else is parameterised"""
    import enum
    from . import Parameterizer

    class Plain(enum.Enum):
        a = "x"

    class StrE(str, enum.Enum):
        a = "x"

    class IntE(enum.IntEnum):
        a = 1
    p = Parameterizer()
    for v, want in ((Plain.a, False), (StrE.a, False), (IntE.a, False), ("*", False), ("x", True), (1, True), (None, True)):
        got = p.should_parameterize(v)
        if bool(got) != want:
            return f"should_parameterize({v!r}) == {got!r}, expected {want}"
    return None


def json_dialect():
    """C08: a JSON literal reads the same under every dialect context (its inner quotes are JSON's, not the identifier quotes)"""
    from . import JSON
    v = JSON({"k": ["v", 1]})
    base = None
    for name, ctx in contexts():
        sql = v.get_sql(ctx)
        if base is None:
            base = sql
        if sql != base:
            return f"JSON literal renders {sql!r} under {name} but {base!r} under {contexts()[0][0]}"
    return None
